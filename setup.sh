#!/bin/bash
# Offline setup: make sure Hypothesis (and atheris for the fuzz tiers) are importable by /venv/bin/python.
# Installs from the offline wheelhouse into /verif/.deps only when missing. No network.
here="$(cd "$(dirname "${BASH_SOURCE[0]}")" && pwd)"
cd "$here" || exit 1
mkdir -p .deps .work evidence
export PIP_NO_INDEX=1
if ! PYTHONPATH="$here/.deps" /venv/bin/python -c "import hypothesis" 2>/dev/null; then
  /venv/bin/pip install --no-index --find-links /opt/veriftools/wheels --target "$here/.deps" hypothesis || exit 1
fi
if ! PYTHONPATH="$here/.deps" /venv/bin/python -c "import atheris" 2>/dev/null; then
  /venv/bin/pip install --no-index --find-links /opt/veriftools/wheels --target "$here/.deps" atheris \
    || echo "setup: atheris not installable; fuzz tiers will report that and fall back to Hypothesis-only" >&2
fi
PYTHONPATH="$here/.deps" /venv/bin/python -c "import hypothesis; print('hypothesis', hypothesis.__version__)" || exit 1
exit 0
