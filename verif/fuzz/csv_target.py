"""atheris (libFuzzer) target for the CSV trace reader (C14) and the arrival->tick mapping (C13).

Bytes are decoded through a data-provider layer into a CSV text built from a small grammar with
deliberate defects, so the fuzzer reaches the reader's logic instead of dying in input validation.
The semantic oracle is inside the target: an independent reference parser classifies the text as
well-formed (-> must load to exactly the reference pipelines, and each pipeline must be delivered by
WorkloadTrace in an allowed tick), malformed by one of the listed rules (-> must raise), or
unspecified (-> no verdict).  A violated oracle raises OracleViolation, which libFuzzer reports as a crash.

Run as a module:  python -m verif.fuzz.csv_target <corpus_dir> -max_total_time=N -artifact_prefix=DIR/
"""
import io
import math
import sys
from fractions import Fraction as F

LAWS = ["const", "log", "sqrt", "linear3", "linear7", "squared", "exp"]
PRIOS = ["QUERY", "INTERACTIVE", "BATCH_PIPELINE"]
HEADER = "pipeline_id,arrival_seconds,priority,operator_id,parents,baseline_cpu_seconds,cpu_scaling,memory_gb,storage_read_gb"
NUMS = ["0", "1", "2.5", "15", "37.5", "55", "0.001", "1e-3", "1E2", "007", "1e300", "5e-324", "0.0", "10", "3", ".5", "4."]
BAD_NUMS = ["", " ", "abc", "nan", "inf", "-1", "1,5", "1 2", "--1", "0x10"]
BAD_PRIOS = ["URGENT", "query", "Batch", "BATCH", "1", " QUERY"]
BAD_LAWS = ["cubic", "CONST", "linear", "", "linear5", " const"]
TPS = [1, 2, 3, 7, 10, 100, 1000]
stats = {"wellformed": 0, "malformed": 0, "unspecified": 0, "execs": 0}
MODE = {"property": "C14"}
SUPPRESS = set()


class OracleViolation(Exception):
    pass


def build(fdp):
    """returns (csv_text, tps).  Mostly well-formed, with a bounded number of injected defects."""
    tps = TPS[fdp.ConsumeIntInRange(0, len(TPS) - 1)]
    npipes = fdp.ConsumeIntInRange(1, 4)
    lines = [HEADER]
    t = 0
    for pi in range(npipes):
        nops = fdp.ConsumeIntInRange(1, 4)
        t += fdp.ConsumeIntInRange(0, 3)
        frac = fdp.ConsumeIntInRange(0, 3)
        arrival = [str(t), repr(t / tps), repr(t * (1.0 / tps)), repr((t + 0.5) / tps)][frac]
        pid = f"p{pi}" if fdp.ConsumeIntInRange(0, 30) else "p0"
        for oi in range(nops):
            defect = fdp.ConsumeIntInRange(0, 40)
            prio = PRIOS[fdp.ConsumeIntInRange(0, 2)] if oi == 0 else ""
            arr = arrival if oi == 0 else ""
            opid = f"op{oi}" if fdp.ConsumeIntInRange(0, 30) else "op0"
            par = []
            for j in range(oi):
                if fdp.ConsumeBool():
                    par.append(f"op{j}")
            parents = ";".join(par)
            cpu = NUMS[fdp.ConsumeIntInRange(0, len(NUMS) - 1)]
            law = LAWS[fdp.ConsumeIntInRange(0, len(LAWS) - 1)]
            mem = NUMS[fdp.ConsumeIntInRange(0, len(NUMS) - 1)] if fdp.ConsumeBool() else ""
            read = NUMS[fdp.ConsumeIntInRange(0, len(NUMS) - 1)]
            if defect == 1:
                prio = "" if oi == 0 else PRIOS[fdp.ConsumeIntInRange(0, 2)]
            elif defect == 2:
                arr = "" if oi == 0 else ["0", "0.0", "1.5", arrival][fdp.ConsumeIntInRange(0, 3)]
            elif defect == 3:
                prio = BAD_PRIOS[fdp.ConsumeIntInRange(0, len(BAD_PRIOS) - 1)]
            elif defect == 4:
                law = BAD_LAWS[fdp.ConsumeIntInRange(0, len(BAD_LAWS) - 1)]
            elif defect == 5:
                parents = (parents + ";" if parents else "") + ["op9", "nope", f"op{oi}", f"op{oi + 1}"][fdp.ConsumeIntInRange(0, 3)]
            elif defect == 6:
                cpu = BAD_NUMS[fdp.ConsumeIntInRange(0, len(BAD_NUMS) - 1)]
            elif defect == 7:
                read = BAD_NUMS[fdp.ConsumeIntInRange(0, len(BAD_NUMS) - 1)]
            elif defect == 8:
                parents = parents.replace(";", " ; ") if parents else parents
            elif defect == 9:
                arr = BAD_NUMS[fdp.ConsumeIntInRange(0, len(BAD_NUMS) - 1)] if oi == 0 else arr
            elif defect == 10 and par:
                parents = parents + ";" + par[0]
            lines.append(",".join([pid, arr, prio, opid, parents, cpu, law, mem, read]))
    return "\n".join(lines) + "\n", tps


def plain_number(s):
    """a non-negative finite decimal literal without surrounding whitespace"""
    if s != s.strip() or not s:
        return None
    try:
        v = float(s)
    except ValueError:
        return None
    if math.isnan(v) or math.isinf(v) or v < 0 or s.lower().startswith(("0x", "+", "-")) or "_" in s:
        return None
    return v


def reference(text):
    """('wellformed', pipelines) | ('malformed', rule) | ('unspecified', why)"""
    lines = text.split("\n")
    if lines[0] != HEADER:
        return ("unspecified", "header")
    rows = [l.split(",") for l in lines[1:] if l != ""]
    if any(len(r) != 9 for r in rows) or not rows:
        return ("unspecified", "columns")
    groups = []
    for r in rows:
        if groups and groups[-1][0] == r[0]:
            groups[-1][1].append(r)
        else:
            groups.append((r[0], [r]))
    if len({g[0] for g in groups}) != len(groups) or any(not g[0] for g in groups):
        return ("unspecified", "pipeline id reappears or is empty")
    listed = None
    pipes = []
    prev_arrival = None
    for pid, rs in groups:
        seen_ops = []
        ops = []
        for i, r in enumerate(rs):
            _, arr, prio, opid, parents, cpu, law, mem, read = r
            if not opid or opid in seen_ops:
                return ("unspecified", "operator id duplicate or empty")
            if plain_number(cpu) is None or plain_number(read) is None or (mem != "" and plain_number(mem) is None):
                return ("unspecified", "numeric cell")
            if parents != parents.strip():
                return ("unspecified", "whitespace around the parents cell")
            plist = [p.strip() for p in parents.split(";") if p.strip()] if parents else []
            if len(set(plist)) != len(plist):
                return ("unspecified", "parent listed twice")
            if any(p not in seen_ops for p in plist):
                if any(p == opid or p in [x[3] for x in rs[i + 1:]] for p in plist if p not in seen_ops):
                    return ("unspecified", "forward or self reference")
                listed = listed or "undefined_parent"
            if i == 0:
                if prio == "":
                    listed = listed or "first_no_priority"
                elif prio != prio.strip():
                    return ("unspecified", "whitespace around priority")
                elif prio not in PRIOS:
                    listed = listed or "unknown_priority"
                if arr.strip() == "":
                    if arr != "":
                        return ("unspecified", "whitespace-only arrival")
                    listed = listed or "first_no_arrival"
                elif plain_number(arr) is None:
                    return ("unspecified", "arrival not a plain number")
            else:
                if prio.strip() != "":
                    listed = listed or "later_priority"
                elif prio != "":
                    return ("unspecified", "whitespace-only priority")
                if arr.strip() != "":
                    if plain_number(arr.strip()) is None:
                        return ("unspecified", "later arrival not a number")
                    listed = listed or "later_arrival"
                elif arr != "":
                    return ("unspecified", "whitespace-only arrival")
            if law not in LAWS:
                listed = listed or "unknown_law"
            seen_ops.append(opid)
            ops.append({"parents": [seen_ops.index(p) for p in plist if p in seen_ops], "cpu": plain_number(cpu), "law": law,
                        "mem": None if mem == "" else plain_number(mem), "read": plain_number(read)})
        a = plain_number(rs[0][1]) if rs[0][1].strip() else None
        if a is not None and prev_arrival is not None and a < prev_arrival:
            return ("unspecified", "arrivals not ascending")
        if a is not None:
            prev_arrival = a
        pipes.append({"id": pid, "arrival_text": rs[0][1], "prio": rs[0][2], "ops": ops})
    if listed:
        return ("malformed", listed)
    return ("wellformed", pipes)


def law_name(seg):
    from eudoxia.workload.pipeline import Segment
    for name, f in Segment.SCALING_FUNCS.items():
        if f == seg.scaling_func:
            return name
    return None


def check_text(text, tps, prop=None):
    """the oracle; raises OracleViolation"""
    from eudoxia.workload.csv_io import CSVWorkloadReader
    prop = prop or MODE["property"]
    verdict, info = reference(text)
    stats[verdict] += 1
    if verdict == "unspecified":
        return verdict
    if prop == "C13":
        if verdict == "wellformed":
            check_delivery(text, tps, info)
        return verdict
    try:
        got = [pa for batch in CSVWorkloadReader(io.StringIO(text)).batch_by_arrival() for pa in batch]
        raised = None
    except Exception as e:
        raised = e
    if verdict == "malformed":
        if raised is None:
            raise OracleViolation(f"C14:malformed-file-loaded rule {info}: {text!r}")
        return verdict
    if raised is not None:
        raise OracleViolation(f"C14:wellformed-file-refused {type(raised).__name__}: {raised}: {text!r}")
    if len(got) != len(info):
        raise OracleViolation(f"C14:pipeline-count {len(got)} vs {len(info)}: {text!r}")
    for pa, ref in zip(got, info):
        p = pa.pipeline
        ops = list(p.values.node_lookup.values())
        if p.pipeline_id != ref["id"] or p.priority.name != ref["prio"] or pa.arrival_seconds != float(ref["arrival_text"]):
            raise OracleViolation(f"C14:pipeline-header {p.pipeline_id} {p.priority.name} {pa.arrival_seconds!r} vs {ref}: {text!r}")
        if len(ops) != len(ref["ops"]):
            raise OracleViolation(f"C14:operator-count: {text!r}")
        for o, r in zip(ops, ref["ops"]):
            s = o.get_segments()[0]
            if (sorted(ops.index(q) for q in o.parents) != sorted(r["parents"]) or s.baseline_cpu_seconds != r["cpu"]
                    or law_name(s) != r["law"] or s.storage_read_gb != r["read"]
                    or (s.memory_gb is None) != (r["mem"] is None) or (r["mem"] is not None and s.memory_gb != r["mem"])):
                raise OracleViolation(f"C14:operator-fields {r}: {text!r}")
    return verdict


def check_delivery(text, tps, info):
    """C13 on a well-formed trace: every pipeline delivered once, in an allowed tick"""
    from eudoxia.workload.csv_io import CSVWorkloadReader
    from verif.checks.c13 import allowed_ticks, is_known_late
    last = max(math.ceil(F(r["arrival_text"]) * tps) for r in info) + 2
    if last > 3000:
        return
    wl = CSVWorkloadReader(io.StringIO(text)).get_workload(tps)
    seen = {}
    order = []
    for t in range(last + 1):
        for p in wl.run_one_tick():
            if p.pipeline_id in seen:
                raise OracleViolation(f"C13:delivered-twice {p.pipeline_id}: {text!r} tps={tps}")
            seen[p.pipeline_id] = t
            order.append(p.pipeline_id)
    ids = [r["id"] for r in info]
    for a, b in zip(order, order[1:]):
        if seen[a] == seen[b] and ids.index(a) > ids.index(b):
            raise OracleViolation(f"C13:file-order {a} before {b}: {text!r} tps={tps}")
    for r in info:
        x, ok = allowed_ticks(r["arrival_text"], tps)
        gotk = seen.get(r["id"])
        if gotk in ok:
            continue
        if gotk is not None and is_known_late(r["arrival_text"], tps, gotk) and "late-on-grid" in SUPPRESS:
            stats["known_late"] = stats.get("known_late", 0) + 1
            continue    # the recorded finding late-on-grid (only while known_findings.txt lists it)
        raise OracleViolation(f"C13:wrong-tick {r['id']} arrival {r['arrival_text']} at {tps} ticks/s delivered in {gotk}, allowed {sorted(ok)}: {text!r}")


def one_input(data):
    import atheris
    stats["execs"] += 1
    fdp = atheris.FuzzedDataProvider(data)
    text, tps = build(fdp)
    if stats["execs"] % 2000 == 0:
        dump_stats()
    check_text(text, tps)


def dump_stats():
    import json
    import os
    path = os.environ.get("VERIF_FUZZ_STATS")
    if path:
        with open(path + ".tmp", "w") as f:
            json.dump(stats, f)
        os.replace(path + ".tmp", path)


def decode(data):
    import atheris
    return build(atheris.FuzzedDataProvider(data))


def main():
    import logging
    import os
    logging.disable(logging.CRITICAL)
    import atheris
    MODE["property"] = os.environ.get("VERIF_FUZZ_PROPERTY", "C14")
    SUPPRESS.update(k for k in os.environ.get("VERIF_FUZZ_SUPPRESS", "").split(",") if k)
    with atheris.instrument_imports(include=["eudoxia.workload.csv_io", "eudoxia.workload.workload", "eudoxia.workload.pipeline", "eudoxia.utils.dag"]):
        import eudoxia  # noqa
        import eudoxia.workload.csv_io  # noqa
    logging.disable(logging.CRITICAL)
    atheris.Setup(sys.argv, one_input)
    atheris.Fuzz()


if __name__ == "__main__":
    main()
