"""Runs one atheris campaign of verif.fuzz.csv_target in a child process and turns its outcome into the
runner's part format (stats + violation).  libFuzzer pins a campaign only approximately (-seed, fresh corpus);
the saved failing input is the reproducible unit."""
import glob
import hashlib
import json
import os
import shutil
import subprocess
import sys

from verif.runner import Stats, spec_hash, canon


def atheris_available():
    try:
        import atheris  # noqa
        return True
    except Exception:
        return False


def campaign(prop, tier, seed, shard, nshards):
    st_ = Stats()
    res = {"shard": shard, "stats": None, "violation": None, "harness": None}
    home = os.environ.get("VERIF_HOME", ".")
    budget = 20 if tier == "quick" else 600
    if not atheris_available():
        st_.labels["atheris_unavailable"] += 1
        res["stats"] = st_.to_json()
        return res
    d = os.path.join(home, ".work", f"fuzz-{prop}-{os.getpid()}-{shard}")
    shutil.rmtree(d, ignore_errors=True)
    os.makedirs(os.path.join(d, "corpus"))
    try:
        if shard % 2 == 1:
            # a few small seeds (the even shards start from an empty corpus)
            for k in range(8):
                blob = hashlib.sha256(f"{seed}-{shard}-{k}".encode()).digest() * (1 + k % 3)
                with open(os.path.join(d, "corpus", f"seed{k}"), "wb") as f:
                    f.write(blob)
        env = dict(os.environ)
        env["VERIF_FUZZ_PROPERTY"] = prop
        from verif.runner import suppressed_keys
        env["VERIF_FUZZ_SUPPRESS"] = ",".join(sorted(suppressed_keys(prop)))
        env["VERIF_FUZZ_STATS"] = os.path.join(d, "stats.json")
        cmd = [sys.executable, "-m", "verif.fuzz.csv_target", os.path.join(d, "corpus"), f"-max_total_time={budget}",
               f"-seed={seed * 1009 + shard + 1}", f"-artifact_prefix={d}/", "-max_len=256", "-print_final_stats=1"]
        r = subprocess.run(cmd, env=env, capture_output=True, text=True, timeout=budget + 300, cwd=home)
        fs = {}
        if os.path.exists(os.path.join(d, "stats.json")):
            fs = json.load(open(os.path.join(d, "stats.json")))
        execs = 0
        for line in r.stderr.splitlines():
            if line.startswith("stat::number_of_executed_units:"):
                execs = int(line.split(":")[-1])
        execs = execs or fs.get("execs", 0)
        st_.evaluations = execs
        st_.labels["fuzz_execs"] += execs
        for k in ("wellformed", "malformed", "unspecified", "known_late"):
            if fs.get(k):
                st_.labels["fuzz_" + k] += fs[k]
        if fs.get("known_late"):
            st_.known_hits["late-on-grid"] += fs["known_late"]
        corpus = sorted(glob.glob(os.path.join(d, "corpus", "*")))
        st_.labels["fuzz_corpus_files"] += len(corpus)
        # distinct non-trivial = corpus entries (coverage-distinct inputs) that decode to a judged (not unspecified) text
        from verif.fuzz import csv_target as T
        for path in corpus[:400]:
            data = open(path, "rb").read()
            try:
                text, tps = T.decode(data)
                verdict, _ = T.reference(text)
            except Exception:
                continue
            if verdict != "unspecified":
                spec = {"fuzz_bytes_hex": data.hex(), "fuzz_property": prop}
                st_.nontrivial.add(spec_hash(spec))
                if len(st_.samples) < 2:
                    st_.samples.append((len(canon(spec)), spec_hash(spec), {"fuzz_bytes_hex": data.hex(), "fuzz_property": prop, "decodes_to": text[:600], "tps": tps, "verdict": verdict}, ["fuzz_" + verdict]))
        crashes = sorted(glob.glob(os.path.join(d, "crash-*")))
        if crashes:
            data = open(crashes[0], "rb").read()
            spec = {"fuzz_bytes_hex": data.hex(), "fuzz_property": prop}
            msg = ""
            for line in r.stderr.splitlines():
                if "OracleViolation" in line:
                    msg = line.strip()
            res["violation"] = {"spec": spec, "problem": {"key": f"{prop}:fuzz-oracle", "msg": msg[:1500] or "atheris reported a crash", "known": None}}
        elif r.returncode != 0:
            res["harness"] = {"spec": None, "traceback": "atheris campaign failed:\n" + r.stderr[-2000:]}
        res["stats"] = st_.to_json()
        return res
    finally:
        shutil.rmtree(d, ignore_errors=True)


def replay(spec, out):
    """re-executes a saved fuzz input outside atheris"""
    from verif.fuzz import csv_target as T
    data = bytes.fromhex(spec["fuzz_bytes_hex"])
    prop = spec.get("fuzz_property", "C14")
    text, tps = T.decode(data)
    out.label("fuzz_replay")
    from verif.runner import suppressed_keys
    T.SUPPRESS.clear()
    T.SUPPRESS.update(suppressed_keys(prop))
    try:
        v = T.check_text(text, tps, prop)
        out.label("fuzz_" + v)
        out.nontrivial = v != "unspecified"
    except T.OracleViolation as e:
        out.problem(f"{prop}:fuzz-oracle", str(e))
        out.nontrivial = True
    return out
