import sys
from verif.runner import main
sys.exit(main())
