"""Shared runner: sharding, seeds, bounded shrinking, replay files, evidence, exit codes.

Exit codes: 0 = property held on everything explored (KNOWN-FINDING lines may be printed),
1 = violation (a line `VIOLATION property=<id> replay=<path>` on stdout), 2 = harness error
(never prints VIOLATION).
"""
import argparse
import collections
import hashlib
import importlib
import json
import multiprocessing
import os
import sys
import time
import traceback

HOME = os.environ.get("VERIF_HOME", os.path.dirname(os.path.dirname(os.path.abspath(__file__))))
REPO = os.environ.get("VERIF_REPO", "/repo")
OUT = os.environ.get("VERIF_OUT", HOME)   # evidence/ and replay/<id>/found-*.json go here (audits redirect it)


class HarnessError(Exception):
    pass


# --------------------------------------------------------------------------- outcomes

class Problem:
    """One violated oracle clause. `known` names a known-finding signature the check module
    recognised in this observation (suppressed only if known_findings.txt lists it)."""

    def __init__(self, key, msg, known=None):
        self.key = key
        self.msg = msg
        self.known = known

    def to_json(self):
        return {"key": self.key, "msg": self.msg, "known": self.known}


class Outcome:
    def __init__(self):
        self.labels = []
        self.nontrivial = False
        self.problems = []
        self.skipped = None      # reason string: the case was not judged (counted, never a pass)
        self.extra_evals = 0      # sub-evaluations (ticks, requests ...) for reporting

    def label(self, *names):
        for n in names:
            if n not in self.labels:
                self.labels.append(n)

    def problem(self, key, msg, known=None):
        self.problems.append(Problem(key, str(msg)[:2000], known))


def canon(spec):
    return json.dumps(spec, sort_keys=True, separators=(",", ":"))


def spec_hash(spec):
    return hashlib.sha1(canon(spec).encode()).hexdigest()[:16]


# --------------------------------------------------------------------------- findings

def load_findings():
    path = os.path.join(HOME, "known_findings.txt")
    out = []
    if not os.path.exists(path):
        return out
    for line in open(path):
        line = line.strip()
        if not line or line.startswith("#"):
            continue
        kind, _, rest = line.partition(":")
        kind = kind.strip()
        fields = {}
        words = rest.split()
        text = []
        for w in words:
            if "=" in w and not text and w.split("=", 1)[0] in ("property", "key"):
                k, v = w.split("=", 1)
                fields[k] = v
            else:
                text.append(w)
        if kind not in ("finding", "fixed"):
            raise HarnessError(f"known_findings.txt: bad line {line!r}")
        out.append({"kind": kind, "property": fields.get("property"), "key": fields.get("key"),
                    "text": " ".join(text)})
    return out


def suppressed_keys(pid):
    return {f["key"]: f["text"] for f in load_findings() if f["kind"] == "finding" and f["property"] == pid}


# --------------------------------------------------------------------------- environment

def prepare_process():
    """Called once per process before any case runs."""
    import logging
    logging.disable(logging.CRITICAL)
    import eudoxia  # noqa
    logging.disable(logging.CRITICAL)
    f = os.path.realpath(eudoxia.__file__)
    if not f.startswith(os.path.realpath(REPO) + os.sep):
        raise HarnessError(f"eudoxia imported from {f}, expected under {REPO}")


class package_logging_on:
    """Context manager: the package's own default logging (DEBUG on the root logger, as `import eudoxia` sets it up) is
    switched on for one case, with the output thrown away.  Behaviour may not depend on the log level."""

    def __enter__(self):
        import logging
        self.devnull = open(os.devnull, "w")
        self.saved = []
        for h in logging.getLogger().handlers:
            if hasattr(h, "stream"):
                self.saved.append((h, h.stream))
                h.stream = self.devnull
        logging.disable(logging.NOTSET)
        return self

    def __exit__(self, *a):
        import logging
        logging.disable(logging.CRITICAL)
        for h, st in self.saved:
            h.stream = st
        self.devnull.close()
        return False


def reset_case_state():
    from eudoxia.executor.container import Container
    Container.next_container_num = 1


def run_case_guarded(mod, spec):
    """Run one case; any exception escaping the check module is a harness error."""
    reset_case_state()
    out = mod.run_case(spec)
    if not isinstance(out, Outcome):
        raise HarnessError("run_case did not return an Outcome")
    return out


# --------------------------------------------------------------------------- stats

class Stats:
    def __init__(self):
        self.evaluations = 0
        self.skipped = collections.Counter()
        self.labels = collections.Counter()
        self.nontrivial = set()
        self.samples = []       # (size, hash, spec, labels)
        self.known_hits = collections.Counter()
        self.extra_evals = 0
        self.truncated = False
        self.invalid = 0

    def add(self, spec, out, supp):
        self.evaluations += 1
        self.extra_evals += out.extra_evals
        if out.skipped:
            self.skipped[out.skipped] += 1
        for l in out.labels:
            self.labels[l] += 1
        if out.nontrivial and not out.skipped:
            h = spec_hash(spec)
            if h not in self.nontrivial:
                self.nontrivial.add(h)
                size = len(canon(spec))
                if len(self.samples) < 3 or size < self.samples[-1][0]:
                    self.samples.append((size, h, spec, list(out.labels)))
                    self.samples.sort(key=lambda s: (s[0], s[1]))
                    del self.samples[3:]
        for p in out.problems:
            if p.known and p.known in supp:
                self.known_hits[p.known] += 1

    def to_json(self):
        return {"evaluations": self.evaluations, "skipped": dict(self.skipped), "labels": dict(self.labels),
                "nontrivial": sorted(self.nontrivial), "samples": self.samples,
                "known_hits": dict(self.known_hits), "extra_evals": self.extra_evals,
                "truncated": self.truncated}


def unsuppressed(out, supp):
    return [p for p in out.problems if not (p.known and p.known in supp)]


# --------------------------------------------------------------------------- hypothesis worker

class _Violation(Exception):
    pass


def cleanup_scratch():
    """Removes the per-process scratch directories (.work/<name>-<pid>[-...]) the check modules create on demand."""
    import glob
    import shutil
    base = os.path.join(HOME, ".work")
    pid = os.getpid()
    for d in glob.glob(os.path.join(base, f"*-{pid}")) + glob.glob(os.path.join(base, f"*-{pid}-*")):
        if os.path.isdir(d):
            shutil.rmtree(d, ignore_errors=True)


def hypothesis_worker(args):
    try:
        return _hypothesis_worker(args)
    finally:
        cleanup_scratch()


def generic_worker(args):
    try:
        return _generic_worker(args)
    finally:
        cleanup_scratch()


def _hypothesis_worker(args):
    modname, tier, seed, shard, n_examples, budget_s, shrink_s = args
    try:
        prepare_process()
        mod = importlib.import_module(modname)
        import hypothesis
        from hypothesis import given, settings, HealthCheck, Phase
        supp = suppressed_keys(mod.ID)
        stats = Stats()
        st = {"t0": time.time(), "fail_t": None, "best": None, "key": None, "harness": None}

        # dev knobs for the sensitivity audit only (never set by the registered commands): stop all shards soon after the
        # first violation, and shrink for a shorter time
        failfast = os.environ.get("VERIF_FAILFAST_FLAG")
        if os.environ.get("VERIF_SHRINK_S"):
            shrink_s = float(os.environ["VERIF_SHRINK_S"])

        @hypothesis.seed(seed * 1009 + shard)
        @settings(max_examples=n_examples, database=None, deadline=None, report_multiple_bugs=False,
                  derandomize=False, suppress_health_check=list(HealthCheck),
                  phases=(Phase.generate, Phase.shrink), print_blob=False)
        @given(mod.strategy(tier))
        def test(spec):
            now = time.time()
            if st["harness"] is not None:
                return
            if failfast and st["fail_t"] is None and os.path.exists(failfast):
                stats.truncated = True
                return
            if st["fail_t"] is None:
                if now - st["t0"] > budget_s:
                    stats.truncated = True
                    return
            elif now - st["fail_t"] > shrink_s:
                return
            try:
                out = run_case_guarded(mod, spec)
            except hypothesis.errors.UnsatisfiedAssumption:
                stats.invalid += 1
                raise
            except Exception:
                st["harness"] = {"spec": spec, "traceback": traceback.format_exc()}
                return
            if st["fail_t"] is None:
                stats.add(spec, out, supp)
            bad = unsuppressed(out, supp)
            if bad:
                if st["fail_t"] is None:
                    st["fail_t"] = now
                    st["key"] = bad[0].key
                    if failfast:
                        open(failfast, "w").close()
                same = [p for p in bad if p.key == st["key"]]
                if same:
                    size = len(canon(spec))
                    if st["best"] is None or size < st["best"][0]:
                        st["best"] = (size, spec, same[0].to_json())
                    raise _Violation(st["key"])

        try:
            test()
        except _Violation:
            pass
        except BaseException as e:  # Flaky etc. after the shrink deadline: our own record decides
            if st["best"] is None and st["harness"] is None:
                st["harness"] = {"spec": None, "traceback": traceback.format_exc()}
        res = {"shard": shard, "stats": stats.to_json(), "violation": None, "harness": st["harness"]}
        if st["best"] is not None:
            res["violation"] = {"spec": st["best"][1], "problem": st["best"][2]}
        return res
    except BaseException:
        return {"shard": shard, "stats": Stats().to_json(), "violation": None,
                "harness": {"spec": None, "traceback": traceback.format_exc()}}


def _generic_worker(args):
    """Worker for non-Hypothesis parts (exhaustive enumerations): mod.<func>(tier, seed, shard, nshards)
    returns (Stats-json-like dict, violation or None)."""
    modname, func, tier, seed, shard, nshards = args
    try:
        prepare_process()
        mod = importlib.import_module(modname)
        return getattr(mod, func)(tier, seed, shard, nshards)
    except BaseException:
        return {"shard": shard, "stats": Stats().to_json(), "violation": None,
                "harness": {"spec": None, "traceback": traceback.format_exc()}}


# --------------------------------------------------------------------------- main

def write_json(path, obj):
    os.makedirs(os.path.dirname(path), exist_ok=True)
    tmp = path + ".tmp%d" % os.getpid()
    with open(tmp, "w") as f:
        json.dump(obj, f, indent=1, sort_keys=True, default=str)
        f.write("\n")
    os.replace(tmp, path)


def merge(total, part):
    total["evaluations"] += part["evaluations"]
    total["extra_evals"] += part.get("extra_evals", 0)
    total["truncated"] = total["truncated"] or part.get("truncated", False)
    for k in ("skipped", "labels", "known_hits"):
        for a, b in part.get(k, {}).items():
            total[k][a] = total[k].get(a, 0) + b
    total["nontrivial"].update(part.get("nontrivial", []))
    for s in part.get("samples", []):
        total["samples"].append(tuple(s))
    ex = part.get("exhaustive")
    if ex:
        cur = total["exhaustive_parts"].setdefault(ex["part"], {"cases": 0, "what": ex.get("what", "")})
        cur["cases"] += ex.get("cases", 0)


def replay_one(mod, spec, supp):
    out = run_case_guarded(mod, spec)
    return out, unsuppressed(out, supp)


def main(argv=None):
    import atexit
    atexit.register(cleanup_scratch)
    ap = argparse.ArgumentParser()
    ap.add_argument("id")
    ap.add_argument("--tier", default=os.environ.get("VERIF_TIER", "quick"), choices=["quick", "thorough"])
    ap.add_argument("--replay")
    ap.add_argument("--jobs", type=int, default=int(os.environ.get("VERIF_JOBS", "16")))
    ap.add_argument("--examples", type=int, default=None, help="override total example count")
    a = ap.parse_args(argv)
    pid = a.id.upper()
    seed = int(os.environ.get("VERIF_SEED", "1") or "1")
    t0 = time.time()
    try:
        prepare_process()
        mod = importlib.import_module(f"verif.checks.{pid.lower()}")
        supp = suppressed_keys(pid)
        known_keys = set(getattr(mod, "KNOWN_KEYS", []))
        for k in supp:
            if k not in known_keys:
                raise HarnessError(f"known_findings.txt lists key {k} for {pid} but the check has no signature for it")

        if a.replay:
            doc = json.load(open(a.replay))
            spec = doc["spec"] if isinstance(doc, dict) and "spec" in doc else doc
            out, bad = replay_one(mod, spec, supp)
            print(json.dumps({"labels": out.labels, "nontrivial": out.nontrivial, "skipped": out.skipped,
                              "problems": [p.to_json() for p in out.problems]}, indent=1))
            for p in out.problems:
                if p.known and p.known in supp:
                    print(f"KNOWN-FINDING: property={pid} {supp[p.known]}")
            if bad:
                print(f"VIOLATION property={pid} replay={a.replay}")
                return 1
            return 0

        total = {"evaluations": 0, "extra_evals": 0, "truncated": False, "skipped": {}, "labels": {},
                 "known_hits": {}, "nontrivial": set(), "samples": [], "exhaustive_parts": {}}
        violations = []   # (spec, problem-json, source)
        harness = []

        # 1. pinned replay cases (shrunk failures of fixed defects and of seeded changes); plain Python
        rdir = os.path.join(HOME, "replay", pid)
        replayed = 0
        if os.path.isdir(rdir):
            for name in sorted(os.listdir(rdir)):
                if not name.endswith(".json") or name.startswith("found-"):
                    continue
                doc = json.load(open(os.path.join(rdir, name)))
                out, bad = replay_one(mod, doc["spec"], supp)
                replayed += 1
                st = Stats()
                st.add(doc["spec"], out, supp)
                merge(total, st.to_json())
                if bad:
                    violations.append((doc["spec"], bad[0].to_json(), os.path.join(rdir, name)))

        # 2. generated search
        plan = mod.plan(a.tier)
        jobs = max(1, min(a.jobs, 16))
        tasks = []
        for part in plan:
            if part["kind"] == "hypothesis":
                n = a.examples or part["examples"]
                shards = min(jobs, part.get("shards", jobs), max(1, n // 5))
                per = [n // shards + (1 if i < n % shards else 0) for i in range(shards)]
                for i in range(shards):
                    tasks.append((hypothesis_worker, (part.get("module", mod.__name__), a.tier, seed, i + part.get("shard_base", 0), per[i],
                                                      part.get("budget_s", 3000 if a.tier == "thorough" else 240),
                                                      45 if a.tier == "quick" else 240)))
            elif part["kind"] == "function":
                shards = min(jobs, part.get("shards", jobs))
                for i in range(shards):
                    tasks.append((generic_worker, (mod.__name__, part["func"], a.tier, seed, i, shards)))
            else:
                raise HarnessError(f"unknown plan part {part}")
        ctx = multiprocessing.get_context("fork")
        results = []
        if tasks:
            with ctx.Pool(min(jobs, len(tasks))) as pool:
                asyncs = [pool.apply_async(fn, (args,)) for fn, args in tasks]
                for r in asyncs:
                    results.append(r.get())
        for r in results:
            merge(total, r["stats"])
            if r.get("harness"):
                harness.append(r["harness"])
            if r.get("violation"):
                violations.append((r["violation"]["spec"], r["violation"]["problem"], None))

        # 3. report
        wall = time.time() - t0
        samples = sorted(set((s[0], s[1], canon(s[2]), tuple(s[3])) for s in total["samples"]))[:4]
        samples_out = [{"spec": json.loads(s[2]), "labels": list(s[3])} for s in samples]
        if not samples_out and hasattr(mod, "fallback_samples"):
            samples_out = mod.fallback_samples()
        out_viol = []
        seen = set()
        for spec, prob, src in violations:
            if prob["key"] in seen:
                continue
            seen.add(prob["key"])
            if src is None:
                h = spec_hash(spec)
                src = os.path.join(OUT, "replay", pid, f"found-{h}.json")
                confirmed = None
                try:
                    _, bad = replay_one(mod, spec, supp)
                    confirmed = bool(bad)
                except Exception:
                    confirmed = False
                write_json(src, {"property": pid, "spec": spec, "problem": prob, "seed": seed, "tier": a.tier,
                                 "confirmed_outside_hypothesis": confirmed})
            out_viol.append((prob, src))

        evidence = {
            "property_id": pid, "tier": a.tier, "seed": seed, "level": "exploration",
            "coverage": {
                "evaluations": total["evaluations"],
                "distinct_nontrivial": len(total["nontrivial"]),
                "rule": mod.RULE,
                "samples": samples_out,
                "classes": dict(sorted(total["labels"].items())),
                "not_judged": total["skipped"],
                "sub_evaluations": total["extra_evals"],
                "known_finding_hits": total["known_hits"],
                "replayed_pinned_cases": replayed,
                "truncated": total["truncated"],
                "exhaustive_parts": total["exhaustive_parts"],
                "exhaustive": False,
            },
            "assumptions": list(mod.ASSUMPTIONS),
            "wall_s": round(wall, 2),
            "violations": len(out_viol),
        }
        if harness:
            evidence["coverage"]["harness_errors"] = len(harness)
        write_json(os.path.join(OUT, "evidence", f"{pid}.json"), evidence)

        for k in sorted(supp):
            n = total["known_hits"].get(k, 0)
            print(f"KNOWN-FINDING: property={pid} {supp[k]} [{n} observation(s) this run]")
        print(f"{pid} tier={a.tier} seed={seed} evaluations={total['evaluations']} "
              f"distinct_nontrivial={len(total['nontrivial'])} wall={wall:.1f}s "
              f"truncated={total['truncated']} classes={json.dumps(dict(sorted(total['labels'].items())))}")
        if out_viol:
            for prob, src in out_viol:
                print(f"  violated clause {prob['key']}: {prob['msg']}")
                print(f"VIOLATION property={pid} replay={os.path.relpath(src, HOME) if src.startswith(HOME + os.sep) else src}")
            return 1
        if harness:
            h = harness[0]
            sys.stderr.write("HARNESS ERROR\n" + h["traceback"] + "\n")
            if h.get("spec") is not None:
                write_json(os.path.join(HOME, ".work", f"harness-{pid}.json"), h)
            return 2
        # generator floors: a silently vacuous check must not pass
        if not total["truncated"]:
            for label, frac in getattr(mod, "FLOORS", {}).items():
                have = total["labels"].get(label, 0)
                if isinstance(frac, (tuple, list)):      # (fraction, label of the class it is a fraction of)
                    need = frac[0] * total["labels"].get(frac[1], 0)
                else:
                    need = frac * total["evaluations"] if frac < 1 else frac
                if have < need:
                    sys.stderr.write(f"HARNESS ERROR generator degenerate: class {label} seen {have} < {need:.0f}\n")
                    return 2
        if len(total["nontrivial"]) < 2:
            sys.stderr.write("HARNESS ERROR fewer than 2 non-trivial cases\n")
            return 2
        return 0
    except HarnessError as e:
        sys.stderr.write(f"HARNESS ERROR {e}\n")
        return 2
    except Exception:
        sys.stderr.write("HARNESS ERROR\n" + traceback.format_exc())
        return 2


if __name__ == "__main__":
    sys.exit(main())
