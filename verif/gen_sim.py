"""Hypothesis strategies for whole-simulation cases (DESIGN §5): configs, DAG pipelines, arrival schedules."""
from hypothesis import strategies as st

from verif.model import ticks as T

TPS = [1, 1, 2, 3, 5, 7, 10, 20, 50, 100, 1000, 10000, 100000]
CPUS = [1, 2, 3, 4, 8, 16, 64]
RAMS = [0.25, 0.5, 1, 2.3, 8, 12.34, 30, 64, 100, 256, 500]


@st.composite
def dag_parents(draw, n, shape=None):
    """parent index lists for n nodes in insertion order; labelled shape classes."""
    shape = shape or draw(st.sampled_from(["chain", "chain", "fanout", "fanin", "diamond", "random", "random", "multiroot"]))
    parents = []
    for i in range(n):
        if i == 0:
            parents.append([])
        elif shape == "chain":
            parents.append([i - 1])
        elif shape == "fanout":
            parents.append([0])
        elif shape == "fanin":
            parents.append(list(range(i)) if i == n - 1 else [])
        elif shape == "diamond":
            if i == n - 1 and n >= 3:
                parents.append(list(range(1, i)))
            else:
                parents.append([0])
        elif shape == "multiroot":
            parents.append([] if i < 2 else sorted(set(draw(st.lists(st.integers(0, i - 1), min_size=1, max_size=2)))))
        else:
            parents.append(sorted(set(draw(st.lists(st.integers(0, i - 1), min_size=0, max_size=3)))))
    return parents


def classify_dag(parents):
    n = len(parents)
    labels = []
    roots = sum(1 for p in parents if not p)
    if roots > 1:
        labels.append("dag_multi_root")
    if any(len(p) > 1 for p in parents):
        labels.append("dag_multi_parent")
    children = {}
    for i, ps in enumerate(parents):
        for p in ps:
            children.setdefault(p, []).append(i)
    if any(len(c) > 1 for c in children.values()):
        labels.append("dag_fan_out")
    if n > 1 and all(parents[i] == [i - 1] for i in range(1, n)):
        labels.append("dag_chain")
    if n == 1:
        labels.append("dag_single")
    return labels


@st.composite
def seg_for_sim(draw, tps, ram_pool, kmax=5):
    """A segment sized in ticks of this run and in fractions of the pool RAM."""
    law = draw(st.sampled_from(T.LAWS))
    io_k = draw(st.sampled_from([0, 0, 1, 1, 2, 3, kmax]))
    cp_k = draw(st.sampled_from([0, 0, 1, 1, 2, 3, kmax]))
    frac_io = draw(st.sampled_from([0.0, 0.3, 0.5]))
    frac_cp = draw(st.sampled_from([0.0, 0.3, 0.5]))
    read = (io_k + frac_io) * 20.0 / tps
    cpu = (cp_k + frac_cp) / tps * draw(st.sampled_from([1, 1, 2, 4]))
    memkind = draw(st.sampled_from(["ramp", "ramp", "zero", "small", "frac", "frac", "big"]))
    if memkind == "ramp":
        mem = None
    elif memkind == "zero":
        mem = 0
    elif memkind == "small":
        mem = draw(st.sampled_from([0.001, 0.01, 0.05]))
    elif memkind == "frac":
        mem = round(ram_pool * draw(st.sampled_from([0.02, 0.05, 0.09, 0.11, 0.15, 0.19, 0.21, 0.3, 0.45])), 6)
    else:
        mem = round(ram_pool * draw(st.sampled_from([0.6, 1.0, 1.5])), 6)
    return {"cpu": cpu, "law": law, "mem": mem, "read": read}


@st.composite
def pipeline_spec(draw, tps, ram_pool, max_ops=8, single_seg=False, prios=(1, 2, 3), shape=None):
    n = draw(st.sampled_from([1, 1, 2, 2, 3, 3, 4, 5, max_ops]))
    parents = draw(dag_parents(n, shape))
    ops = []
    for i in range(n):
        nseg = 1 if single_seg else draw(st.sampled_from([1, 1, 1, 2, 3]))
        ops.append({"parents": parents[i], "segs": [draw(seg_for_sim(tps, ram_pool)) for _ in range(nseg)]})
    return {"prio": draw(st.sampled_from(list(prios))), "ops": ops}


@st.composite
def sim_case(draw, schedulers, tier="quick", max_pipes=12, single_seg=False, force=None):
    """{"params": {...}, "arrivals": [[tick, pipeline_spec], ...]}"""
    force = force or {}
    sched = draw(st.sampled_from(list(schedulers)))
    tps = force.get("tps") or draw(st.sampled_from(TPS))
    nticks = draw(st.sampled_from([40, 20, 80, 120, 40, 20, 80, 120, 5, 1, 0] if tier == "quick" else [200, 80, 400, 800, 200, 80, 400, 20, 1, 0]))
    pools = 2 if sched == "priority-pool" else draw(st.sampled_from([1, 1, 2, 3, 4]))
    cpus = draw(st.sampled_from(CPUS))
    ram = draw(st.sampled_from(RAMS))
    multi = draw(st.booleans())
    over = True if sched == "overbook" else draw(st.sampled_from([False, False, True]))
    params = {"scheduler_algo": sched, "ticks_per_second": tps, "duration": (nticks + 0.5) / tps,
              "num_pools": pools, "cpus_per_pool": cpus, "ram_gb_per_pool": ram,
              "multi_operator_containers": multi, "allow_memory_overcommit": over, "random_seed": draw(st.integers(0, 10 ** 6))}
    a = draw(st.integers(0, 10))
    b = draw(st.integers(0, 10 - a))
    params["interactive_prob"], params["query_prob"], params["batch_prob"] = a / 10, b / 10, (10 - a - b) / 10
    if not force.get("tps") and draw(st.integers(0, 7)) == 0:
        # durations that are whole seconds (or k/tps exactly) at tick rates that do not divide a power of ten: the number
        # of ticks a run has is int(duration * tps)
        tps = draw(st.sampled_from([93, 117, 75, 150, 24, 99, 7]))
        params["ticks_per_second"] = tps
        params["duration"] = draw(st.sampled_from([1, 2, 3, 1.0, 7 / tps * 3, 0.3 * 10 / tps * 1.0]))
        nticks = int(params["duration"] * tps)
    params.update(force.get("params", {}))
    solo = sched == "priority-pool" and not multi and draw(st.booleans())
    npipes = draw(st.sampled_from([3, 5, 2, 8] + list(range(1, max_pipes + 1)) * 2 + [0]))
    heavy = draw(st.integers(0, 2)) == 0
    if heavy:
        # loaded pools: many pipelines in a burst, so that retries and late arrivals meet partially used pools
        npipes = draw(st.integers(8, 24))
        params["cpus_per_pool"] = draw(st.sampled_from([6, 5, 8, 10, 4, 16, 7]))
        params["ram_gb_per_pool"] = draw(st.sampled_from([100, 30, 64, 20, 256, 12.5, 37.75]))
        if draw(st.integers(0, 3)) == 0:
            # fractional pool RAM barely above one GB per CPU: the last container of a full pool gets a fractional leftover
            params["cpus_per_pool"], params["ram_gb_per_pool"] = draw(st.sampled_from([(5, 5.5), (6, 6.8), (10, 12.5), (5, 5.75)]))
        elif draw(st.integers(0, 3)) == 0:
            # CPU-rich pools: RAM runs out (possibly to exactly 0 GB) while CPUs are still free
            params["cpus_per_pool"], params["ram_gb_per_pool"] = draw(st.sampled_from([(15, 20), (32, 100), (64, 8), (16, 4), (32, 10)]))
    arrivals = []
    burst_tick = draw(st.integers(0, max(nticks, 1)))
    for _ in range(npipes):
        mode = draw(st.sampled_from(["early", "burst", "any"]))
        if mode == "early":
            t = draw(st.integers(0, 3))
        elif mode == "burst":
            t = burst_tick
        else:
            t = draw(st.integers(0, max(nticks, 1)))
        ps = draw(pipeline_spec(tps, params["ram_gb_per_pool"], single_seg=single_seg))
        if solo:
            ps["ops"] = ps["ops"][:1]
        arrivals.append([t, ps])
    arrivals.sort(key=lambda a: a[0])
    case = {"params": params, "arrivals": arrivals}
    if draw(st.integers(0, 5)) == 0:
        case["via_toml"] = True      # parameters handed over as a TOML file instead of a dict
    elif draw(st.integers(0, 11)) == 0:
        case["debug_log"] = True     # the package's default DEBUG logging left on (output discarded)
    return case
