"""C01 (a, large): Hypothesis DAGs of up to 40 nodes; same iteration oracle as the exhaustive part."""
from hypothesis import strategies as st

from verif.runner import Outcome
from verif.gen_sim import dag_parents, classify_dag
from verif.checks.c01 import check_dag, ID, RULE, ASSUMPTIONS  # noqa


@st.composite
def big_dag(draw):
    n = draw(st.integers(7, 40))
    return {"dag_parents": draw(dag_parents(n, draw(st.sampled_from(["random", "random", "multiroot", "diamond", "fanin"]))))}


def strategy(tier):
    return big_dag()


def run_case(spec):
    out = Outcome()
    if "dag_parents" not in spec:       # replay file of the simulation part
        from verif.checks import c01
        return c01.run_case(spec)
    parents = spec["dag_parents"]
    for l in classify_dag(parents):
        out.label(l)
    out.label("big_dag")
    why = check_dag(parents)
    if why:
        out.problem("C01:dag-iteration", why)
    out.nontrivial = "dag_multi_parent" in out.labels or "dag_multi_root" in out.labels
    return out
