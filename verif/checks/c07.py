"""C07 - runs are reproducible and every policy is evaluated on the same workload."""
import json
import os
import subprocess
import sys

from hypothesis import strategies as st

from verif.runner import Outcome
from verif.gen_sim import sim_case
from verif.checks.c12 import preempt_case
from verif.checks.c06 import gen_case

ID = "C07"
RULE = ("Hypothesis-generated cases (simulation case x history of 1-3 unrelated simulations x two hash seeds) executed in two separate "
        "interpreter processes: one with PYTHONHASHSEED=a running the target twice, one with PYTHONHASHSEED=b running the history "
        "and then the target; the canonicalised tick-by-tick logs (arrivals with full pipeline fingerprints, decisions, "
        "results; container and pipeline identifiers renumbered by first appearance) and the statistics must be identical across "
        "all three runs. In-process: WorkloadGenerator fingerprints over >= 50 arrival events are identical when only scheduler / "
        "executor / duration parameters differ and different when only the seed differs. Non-trivial = paired runs with >= 1 "
        "suspension or retry and a != b, or a generator pair; distinct = sha1 of the case JSON")
ASSUMPTIONS = [
    "hash seeds and histories are sampled, not enumerated",
    "the random operator/DAG identifiers (uuid4) differ between processes by construction; logs name operators by (pipeline, index)",
]
FLOORS = {"paired": 10, "genpair": 10}
SCHEDS = ["priority", "naive", "priority-pool", "overbook", "starter"]


def plan(tier):
    return [{"kind": "hypothesis", "examples": 128 if tier == "quick" else 2400}]


@st.composite
def branchy_case(draw):
    """single-operator containers, fan-out DAGs, few CPUs, some operators that OOM: failed and newly ready operators of one
    pipeline appear in the same round, where the order in which the package lists them matters"""
    sched = draw(st.sampled_from(["priority", "overbook", "priority"]))
    tps = draw(st.sampled_from([10, 5, 2, 20]))
    ram = draw(st.sampled_from([100, 30, 64]))
    params = {"scheduler_algo": sched, "ticks_per_second": tps, "duration": (draw(st.sampled_from([60, 100, 40])) + 0.5) / tps,
              "num_pools": draw(st.sampled_from([1, 2])), "cpus_per_pool": draw(st.sampled_from([2, 1, 3, 4])), "ram_gb_per_pool": ram,
              "multi_operator_containers": False, "allow_memory_overcommit": sched == "overbook", "random_seed": 0,
              "interactive_prob": 0.3, "query_prob": 0.1, "batch_prob": 0.6}
    arrivals = []
    for _ in range(draw(st.integers(2, 5))):
        n = draw(st.integers(3, 7))
        ops = []
        for i in range(n):
            parents = [] if i == 0 else sorted(set(draw(st.lists(st.integers(0, i - 1), min_size=1, max_size=2))))
            big = draw(st.integers(0, 3)) == 0
            ops.append({"parents": parents, "segs": [{"cpu": (draw(st.integers(0, 3)) + 0.5) / tps, "law": "const",
                                                       "mem": round(ram * (0.15 if big else 0.02), 6), "read": (draw(st.integers(0, 2)) + 0.25) * 20.0 / tps}]})
        arrivals.append([draw(st.integers(0, 3)), {"prio": draw(st.sampled_from([3, 2, 1])), "ops": ops}])
    arrivals.sort(key=lambda a: a[0])
    return {"params": params, "arrivals": arrivals}


@st.composite
def case(draw, tier):
    kind = draw(st.sampled_from(["paired", "paired", "paired", "genpair"]))
    if kind == "genpair":
        a = draw(st.integers(0, 10))
        b = draw(st.integers(0, 10 - a))
        wl = {"ticks_per_second": draw(st.sampled_from([10, 100, 3, 1000])), "random_seed": draw(st.one_of(st.integers(0, 2 ** 31 - 2), st.integers(0, 2 ** 31 - 2),
                                                                                               st.sampled_from([2 ** 53, 2 ** 62, 2 ** 53 + 2, 2 ** 63 - 5, 2 ** 40 + 1]))),
              "waiting_seconds_mean": draw(st.sampled_from([1.0, 0.5, 2.5])), "num_pipelines": draw(st.integers(1, 5)),
              "num_operators": draw(st.integers(1, 8)), "cpu_io_ratio": draw(st.sampled_from([0.5, 0.0, 1.0])),
              "interactive_prob": a / 10, "query_prob": b / 10, "batch_prob": (10 - a - b) / 10}
        other = {"scheduler_algo": draw(st.sampled_from(["naive", "priority-pool", "overbook"])), "num_pools": draw(st.sampled_from([1, 2, 3])),
                 "cpus_per_pool": draw(st.sampled_from([1, 7, 128])), "ram_gb_per_pool": draw(st.sampled_from([1, 33, 1024])),
                 "multi_operator_containers": draw(st.booleans()), "allow_memory_overcommit": draw(st.booleans()),
                 "duration": draw(st.sampled_from([1, 50, 10000])), "rest_poll_interval": 0.25}
        return {"kind": "genpair", "workload_params": wl, "other": other}
    target = draw(st.one_of(sim_case(SCHEDS, "quick"), preempt_case("quick"), preempt_case("quick"), preempt_case("quick"),
                            gen_case("quick"), sim_case(["overbook", "priority"], "quick"), branchy_case(), branchy_case()))
    if target.get("arrivals") and draw(st.integers(0, 2)) == 0:
        # twins: identical pipelines arriving together (equal OOM scores, equal suspension lengths): ties are where
        # identifier- or hash-order dependence can show
        k = draw(st.integers(0, len(target["arrivals"]) - 1))
        t, ps = target["arrivals"][k]
        for _ in range(draw(st.integers(1, 4))):
            target["arrivals"].append([t, ps])
        target["arrivals"].sort(key=lambda a: a[0])
    hist = [draw(sim_case(SCHEDS, "quick", max_pipes=5)) for _ in range(draw(st.integers(1, 3)))]
    ha = draw(st.sampled_from([0, 1, 2, 3]))
    hb = draw(st.sampled_from([4, 5, 6, 12345, 7]))
    case_ = {"kind": "paired", "target": target, "history": hist, "hash_a": ha, "hash_b": hb}
    if target.get("workload") in ("generator", "trace") and draw(st.booleans()):
        case_["omit"] = ["random_seed", "cpu_io_ratio", "num_pools"][: draw(st.integers(1, 3))]
        if "num_pools" in case_["omit"] and target["params"]["scheduler_algo"] == "priority-pool":
            case_["omit"].remove("num_pools")
    return case_


def strategy(tier):
    return case(tier)


def child(doc, hashseed):
    env = dict(os.environ)
    env["PYTHONHASHSEED"] = str(hashseed)
    r = subprocess.run([sys.executable, "-m", "verif.drive.c07_child"], input=json.dumps(doc), env=env, capture_output=True,
                       text=True, timeout=900, cwd=os.environ.get("VERIF_HOME", "."))
    if r.returncode != 0:
        raise RuntimeError(f"child failed: {r.stderr[-800:]}")
    return json.loads(r.stdout)["runs"]


def first_diff(a, b):
    if a["exception"] != b["exception"]:
        return f"exception {a['exception']} vs {b['exception']}"
    for t, (x, y) in enumerate(zip(a["ticks"], b["ticks"])):
        if x != y:
            for name, u, v in zip(("arrivals", "suspensions", "assignments", "results"), x, y):
                if u != v:
                    return f"tick {t} {name}: {json.dumps(u)[:300]} vs {json.dumps(v)[:300]}"
    if len(a["ticks"]) != len(b["ticks"]):
        return f"{len(a['ticks'])} vs {len(b['ticks'])} ticks"
    if a["stats"] != b["stats"]:
        return f"statistics {a['stats']} vs {b['stats']}"
    return None


def gen_fingerprint(params, events=50):
    from eudoxia.simulator import parse_args_with_defaults
    from eudoxia.workload import WorkloadGenerator
    gen = WorkloadGenerator(**parse_args_with_defaults(dict(params)))
    fp = []
    t = 0
    while len(fp) < events and t < 10 ** 6:
        ps = gen.run_one_tick()
        if ps:
            fp.append((t, tuple((p.pipeline_id, p.priority.name,
                                 tuple((s.baseline_cpu_seconds, s.storage_read_gb, s.memory_gb, s.scaling_func.__name__)
                                       for o in p.values.node_lookup.values() for s in o.get_segments())) for p in ps)))
        t += 1
    return fp


def run_case(spec):
    out = Outcome()
    out.label(spec["kind"])
    if spec["kind"] == "genpair":
        wl, other = spec["workload_params"], spec["other"]
        base = gen_fingerprint(wl)
        again = gen_fingerprint(wl)
        varied = gen_fingerprint({**wl, **other})
        reseeded = gen_fingerprint({**wl, "random_seed": wl["random_seed"] + 1})
        out.extra_evals = len(base)
        if base != again:
            out.problem("C07:generator-not-reproducible", "two generators with identical parameters produced different workloads")
        if wl["random_seed"] < 2 ** 63:
            # the workload depends on the VALUE of the seed, not on the type it is handed over in
            import numpy as np
            if gen_fingerprint({**wl, "random_seed": np.int64(wl["random_seed"])}) != base:
                out.problem("C07:generator-not-reproducible", f"random_seed = np.int64({wl['random_seed']}) and random_seed = {wl['random_seed']} give different workloads")
        if base != varied:
            k = next((i for i, (a, b) in enumerate(zip(base, varied)) if a != b), None)
            out.problem("C07:workload-depends-on-non-workload-parameter", f"changing only {sorted(other)} changed the workload (first difference at event {k})")
        # a parameter set that leaves nothing to chance (e.g. query_prob = 1 and a waiting time of one tick) has only one
        # possible workload; "different seeds give different workloads" is required where the workload has random content
        classes = sum(1 for k in ("query_prob", "interactive_prob", "batch_prob") if wl[k] > 0)
        rich = classes >= 2 or (wl["query_prob"] < 1 and wl["num_operators"] >= 2)
        if rich:
            out.label("rich_parameter_set")
            if base == reseeded:
                out.problem("C07:seed-ignored", f"seeds {wl['random_seed']} and {wl['random_seed'] + 1} give the same workload")
            for delta in (2 ** 32, 2 ** 31):
                if base == gen_fingerprint({**wl, "random_seed": wl["random_seed"] + delta}):
                    out.problem("C07:seed-ignored", f"seeds {wl['random_seed']} and {wl['random_seed'] + delta} give the same workload")
        else:
            out.label("deterministic_parameter_set")
        out.nontrivial = True
        return out
    target = spec["target"]
    # process 1 (hash seed a): the target twice in one process; process 2 (hash seed b): the target after a history
    if spec.get("omit"):
        # the target leaves some parameters to their defaults
        target = dict(target)
        target["params"] = {k: v for k, v in target["params"].items() if k not in spec["omit"]}
    c = child({"target": target, "repeat": 2}, spec["hash_a"])
    b = child({"history": spec["history"], "target": target, "repeat": 1, "defaults_idiom": bool(spec.get("omit"))}, spec["hash_b"])
    a = [c[0]]
    out.label("sched_" + target["params"]["scheduler_algo"])
    log = a[0]
    nsus = sum(len(t[1]) for t in log["ticks"])
    nfail = sum(1 for t in log["ticks"] for r in (t[3] or []) if r[2])
    if nsus:
        out.label("had_suspension")
    if nfail:
        out.label("had_failure")
    out.extra_evals = len(log["ticks"])
    for name, other in (("fresh process with another hash seed after a history of other simulations", b[0]),
                        ("second of two runs in one process", c[1])):
        d = first_diff(log, other)
        if d:
            out.problem("C07:runs-differ", f"reference run vs {name}: {d}")
            break
    out.nontrivial = bool(nsus or nfail)
    return out
