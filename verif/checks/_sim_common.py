"""Shared glue for the checks that observe whole simulations."""
from verif.runner import Outcome
from verif.drive.observed_run import observed_run, schedule_workload
from verif.drive import monitors as M
from verif.drive.starter import ensure_starter, NAME as STARTER
from verif.gen_sim import classify_dag


def run_sim(spec):
    """Runs the case; returns (record, params)."""
    params = dict(spec["params"])
    if params["scheduler_algo"] == "starter":
        params["scheduler_algo"] = ensure_starter()
    kind = spec.get("workload", "schedule")
    if kind == "schedule":
        wl = schedule_workload(spec["arrivals"])
    else:
        from eudoxia.simulator import parse_args_with_defaults
        from eudoxia.workload import WorkloadGenerator
        full = parse_args_with_defaults(params)
        gen = WorkloadGenerator(**full)
        if kind == "generator":
            wl = gen
        else:   # "trace": generator -> CSV text -> reader (what `gentrace` + `run -w` do)
            import io
            from eudoxia.workload.csv_io import CSVWorkloadReader, CSVWorkloadWriter, WorkloadTraceGenerator
            buf = io.StringIO()
            w = CSVWorkloadWriter(buf)
            for row in WorkloadTraceGenerator(workload=gen, ticks_per_second=full["ticks_per_second"],
                                              duration_secs=full["duration"]).generate_rows():
                w.write_row(row)
            buf.seek(0)
            wl = CSVWorkloadReader(buf).get_workload(full["ticks_per_second"])
    if spec.get("via_toml"):
        # the documented second entry: run_simulator(<path to a TOML parameter file>)
        import os
        d = os.path.join(os.environ.get("VERIF_HOME", "."), ".work", f"toml-{os.getpid()}")
        os.makedirs(d, exist_ok=True)
        path = os.path.join(d, "params.toml")
        with open(path, "w") as f:
            for k, v in params.items():
                if isinstance(v, bool):
                    f.write(f"{k} = {'true' if v else 'false'}\n")
                elif isinstance(v, str):
                    f.write(f'{k} = "{v}"\n')
                else:
                    f.write(f"{k} = {v!r}\n")
        try:
            rec = observed_run(path, wl)
        finally:
            os.remove(path)
    elif spec.get("debug_log"):
        from verif.runner import package_logging_on
        with package_logging_on():
            rec = observed_run(params, wl)
    else:
        rec = observed_run(params, wl)
    return rec, params


def common_labels(out, spec, rec):
    p = spec["params"]
    out.label("sched_" + p["scheduler_algo"])
    out.label("multi_op_mode" if p["multi_operator_containers"] else "single_op_mode")
    if p["allow_memory_overcommit"]:
        out.label("overcommit")
    nticks = len(rec.ticks)
    if nticks == 0:
        out.label("zero_tick_run")
    if not rec.arrival_order:
        out.label("nothing_arrived")
    for _, ps in spec.get("arrivals", []):
        for l in classify_dag([o["parents"] for o in ps["ops"]]):
            out.label(l)
    nfail = sum(1 for tr in rec.ticks for r in (tr.results or []) if r.failed)
    nsus = sum(len(tr.sus) for tr in rec.ticks)
    nok = sum(1 for tr in rec.ticks for r in (tr.results or []) if not r.failed)
    if nfail:
        out.label("had_failure")
    if nsus:
        out.label("had_suspension")
    if nok:
        out.label("had_success")
    # retry = an assignment naming an operator that failed before
    failed_ops = set()
    retry = False
    for tr in rec.ticks:
        for a in tr.asg:
            if any(op in failed_ops for op in a.ops):
                retry = True
        for r in (tr.results or []):
            if r.failed:
                for op, st in zip(r.ops, r.states):
                    if st == "failed":
                        failed_ops.add(op)
    if retry:
        out.label("had_retry")
    out.extra_evals = nticks
    return {"nfail": nfail, "nsus": nsus, "nok": nok, "retry": retry}


def collect(out, own_tags):
    def P(key, msg, known=None):
        tag = key.split(":", 1)[0]
        if tag in own_tags:
            if len(out.problems) < 5:
                out.problem(key, msg, known)
        else:
            out.label("foreign_problem_" + tag)
    return P
