"""C16 - priority-pool keeps batch work and latency-sensitive work on separate pools."""
from hypothesis import strategies as st
from verif.runner import Outcome
from verif.gen_sim import sim_case
from verif.drive import monitors as M
from ._sim_common import run_sim, common_labels, collect

ID = "C16"
RULE = ("Hypothesis-generated simulations with scheduler priority-pool on two pools (all priority mixes, DAG pipelines, pool sizes "
        "that force OOM and repeated doubling on both pools); every assignment: pool 0 <=> query/interactive pipeline, pool 1 <=> "
        "batch pipeline, assignment priority == pipeline priority; suspensions always empty; after a failure any later assignment "
        "naming one of the failed container's unfinished operators holds exactly those operators; if the doubled request "
        "(2*cpu/total_cpu >= 1/2 or 2*ram/total_ram >= 1/2) reaches half of the pool those operators are never assigned again. "
        "Non-trivial = run with failures on both pools or >= 1 abandoned retry; distinct = sha1 of the case JSON")
ASSUMPTIONS = ["multi_operator_containers=true (the single-operator configuration is the recorded finding of C08) or single-operator pipelines only"]
FLOORS = {"had_failure": 0.1, "abandoned_retry": 0.02, "had_retry": 0.03}


def plan(tier):
    return [{"kind": "hypothesis", "examples": 2000 if tier == "quick" else 40000}]


@st.composite
def case(draw, tier):
    c = draw(sim_case(["priority-pool"], tier))
    if not c["params"]["multi_operator_containers"]:
        if draw(st.booleans()):
            c["params"]["multi_operator_containers"] = True
        else:
            for a in c["arrivals"]:
                a[1]["ops"] = a[1]["ops"][:1]
    return c


def strategy(tier):
    return case(tier)


def run_case(spec):
    out = Outcome()
    rec, params = run_sim(spec)
    c = common_labels(out, spec, rec)
    P = collect(out, {"C16"})
    if rec.exception is not None:
        out.label("run_raised")
    info = {}
    M.mon_priority_pool(rec, P, info)
    if info.get("abandoned"):
        out.label("abandoned_retry")
    if len(info.get("fail_pools", ())) == 2:
        out.label("failures_on_both_pools")
    out.nontrivial = bool(info.get("abandoned")) or len(info.get("fail_pools", ())) == 2
    return out
