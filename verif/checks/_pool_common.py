"""Shared glue for the checks that run the pool machine (C03, C04, C09, C10, C11)."""
from verif.drive.poolmachine import machine_spec, run_episode
from verif.runner import Outcome


def make_run_case(own_tags, nontrivial):
    def run_case(spec):
        out = run_episode(spec)
        own = []
        for p in out.problems:
            tag = p.key.split(":", 1)[0]
            if tag in own_tags:
                own.append(p)
            else:
                out.label("foreign_problem_" + tag)
        out.problems = own
        if not out.skipped:
            out.nontrivial = bool(nontrivial(out))
        return out
    return run_case
