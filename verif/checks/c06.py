"""C06 - completion, latency and returned statistics match an independent recount."""
import itertools

from hypothesis import strategies as st

from verif.runner import Outcome
from verif.gen_sim import sim_case, TPS, CPUS
from verif.model import ticks as T
from verif.model.container import operator_options
from verif.drive import monitors as M
from ._sim_common import run_sim, common_labels, collect

ID = "C06"
RULE = ("Hypothesis-generated simulations (custom DAG schedules, WorkloadGenerator runs and generator->CSV->trace runs; naive / "
        "priority / priority-pool / overbook / starter; pools 1-4; tick rates 1..100000; durations from 0 ticks) observed "
        "through recording Workload / Scheduler / Executor wrappers; SimulatorStats compared with a recount from recorded "
        "events only: arrivals per priority, completion tick = first executor-phase snapshot with all operators completed, "
        "latency = that tick - arrival tick, per-class partition, mean (1e-9), p99 within [sorted[floor(.99(n-1))], max], NaN for "
        "empty classes, throughput = successful containers / duration, assignment / suspension / failure / per-error counters. "
        "Uncontended family: one chain pipeline alone on one big pool finishes in exactly sum(max(1, ticks(op))) ticks "
        "(boundary sets respected). Non-trivial = run with >= 2 priority classes completing and >= 1 failure, or an "
        "uncontended run that completed; distinct = sha1 of the case JSON")
ASSUMPTIONS = [
    "p99 may follow any standard percentile definition (bracket check); the container-level p99_latency field is only required to be a number or NaN",
    "uncontended: segments use small fixed memory so that 'enough memory' holds for every allocation policy",
]
FLOORS = {"two_classes_completed": 0.03, "had_failure": 0.1, "uncontended_completed": 0.05, "workload_generator": 0.03,
          "workload_trace": 0.03, "empty_class": 0.2}
SCHEDS = ["naive", "priority", "priority", "priority-pool", "overbook", "starter"]


def plan(tier):
    return [{"kind": "hypothesis", "examples": 2000 if tier == "quick" else 25000}]


@st.composite
def gen_case(draw, tier):
    sched = draw(st.sampled_from(["priority", "naive", "priority-pool", "overbook"]))
    tps = draw(st.sampled_from([10, 5, 20, 2, 1]))
    nticks = draw(st.sampled_from([200, 400, 100, 600] if tier == "quick" else [400, 1000]))
    a = draw(st.integers(0, 10))
    b = draw(st.integers(0, 10 - a))
    params = {"scheduler_algo": sched, "ticks_per_second": tps, "duration": (nticks + 0.5) / tps,
              "num_pools": 2 if sched == "priority-pool" else draw(st.sampled_from([1, 2, 4])),
              "cpus_per_pool": draw(st.sampled_from([8, 16, 64, 4])), "ram_gb_per_pool": draw(st.sampled_from([256, 64, 128, 500])),
              "multi_operator_containers": True if sched == "priority-pool" else draw(st.booleans()),
              "allow_memory_overcommit": sched == "overbook", "random_seed": draw(st.integers(0, 10 ** 6)),
              "waiting_seconds_mean": draw(st.sampled_from([5.0, 2.0, 10.0, 0.5, 20])),
              "num_pipelines": draw(st.integers(1, 4)), "num_operators": draw(st.integers(1, 5)),
              "cpu_io_ratio": draw(st.sampled_from([0.5, 0.0, 1.0, 0.25])),
              "interactive_prob": a / 10, "query_prob": b / 10, "batch_prob": (10 - a - b) / 10}
    return {"params": params, "workload": draw(st.sampled_from(["generator", "trace"]))}


@st.composite
def uncontended_case(draw, tier):
    sched = draw(st.sampled_from(["naive", "priority"]))
    tps = draw(st.sampled_from([10, 1, 2, 3, 5, 7, 20, 50, 100, 1000]))
    nops = draw(st.integers(1, 5))
    ops = []
    for i in range(nops):
        segs = []
        for _ in range(draw(st.sampled_from([1, 1, 2]))):
            io_k = draw(st.sampled_from([1, 0, 2, 3, 6]))
            cp_k = draw(st.sampled_from([1, 0, 2, 3, 6]))
            f1 = draw(st.sampled_from([0.5, 0.0, 0.25]))
            f2 = draw(st.sampled_from([0.5, 0.0, 0.25]))
            segs.append({"cpu": (cp_k + f2) / tps * draw(st.sampled_from([1, 2, 3])), "law": draw(st.sampled_from(T.LAWS)),
                         "mem": draw(st.sampled_from([0.5, 0, 0.01])), "read": (io_k + f1) * 20.0 / tps})
        ops.append({"parents": [i - 1] if i else [], "segs": segs})
    arrival = draw(st.integers(0, 6))
    params = {"scheduler_algo": sched, "ticks_per_second": tps, "duration": (arrival + 14 * nops * 2 + 6.5) / tps,
              "num_pools": 1, "cpus_per_pool": draw(st.sampled_from([16, 1, 2, 3, 4, 8, 64, 30] + ([0.8, 0.5, 2.5] if sched == "naive" else []))),
              "ram_gb_per_pool": draw(st.sampled_from([64, 500, 20])),
              "multi_operator_containers": draw(st.booleans()), "allow_memory_overcommit": False, "random_seed": 1,
              "interactive_prob": 0.3, "query_prob": 0.1, "batch_prob": 0.6}
    return {"params": params, "arrivals": [[arrival, {"prio": draw(st.sampled_from([3, 1, 2])), "ops": ops}]], "uncontended": True}


def strategy(tier):
    return st.one_of(sim_case(SCHEDS, tier), sim_case(SCHEDS, tier), gen_case(tier), uncontended_case(tier))


def run_case(spec):
    out = Outcome()
    rec, params = run_sim(spec)
    c = common_labels(out, spec, rec)
    out.label("workload_" + spec.get("workload", "schedule"))
    P = collect(out, {"C06"})
    if rec.exception is not None:
        p = spec["params"]
        d8 = (p["scheduler_algo"] == "priority-pool" and not p["multi_operator_containers"]
              and "exactly 1 operator" in str(rec.exception))
        if d8:
            out.skipped = "known_finding_of_C08"      # recorded under C08, not judged here
        else:
            # a valid run that raises returns no statistics at all (e.g. nothing finished)
            P("C06:no-statistics", f"tick {rec.exception_tick}: {type(rec.exception).__name__}: {rec.exception}")
        return out
    info = {}
    from eudoxia.simulator import parse_args_with_defaults
    full = parse_args_with_defaults(params)
    M.mon_recount(rec, P, info, full)
    done = info.get("completed", {})
    if sum(1 for v in done.values() if v) >= 2:
        out.label("two_classes_completed")
    if any(info.get("arrived", {}).get(k, 0) == 0 for k in (1, 2, 3)):
        out.label("empty_class")
    if sum(done.values()) == 0:
        out.label("nothing_completed")
    unc_done = False
    if spec.get("uncontended"):
        out.label("uncontended")
        tps = params["ticks_per_second"]
        arrival = spec["arrivals"][0][0]
        ops = spec["arrivals"][0][1]["ops"]
        pid = "p1"
        # cpu count of the container that ran each operator, from the recorded decisions
        cpu_of = {}
        for tr in rec.ticks:
            for a in tr.asg:
                for (q, i) in a.ops:
                    cpu_of[i] = a.cpu
        fin = None
        for tr in rec.ticks:
            if tr.post_exec and pid in tr.post_exec.states and all(x == "completed" for x in tr.post_exec.states[pid]):
                fin = tr.t
                break
        if len(cpu_of) == len(ops) and not c["nfail"]:
            sets = []
            for i, o in enumerate(ops):
                opts = operator_options(o["segs"], cpu_of[i], tps)
                if opts is None:
                    sets = None
                    break
                sets.append(sorted({len(pl) for pl in opts}))
            if sets is not None:
                totals = {sum(x) for x in itertools.product(*sets)}
                if fin is None:
                    if len(rec.ticks) > arrival + max(totals) + 1:
                        P("C06:uncontended-not-finished", f"needs {sorted(totals)} ticks from tick {arrival}, not finished after {len(rec.ticks)} ticks")
                else:
                    unc_done = True
                    out.label("uncontended_completed")
                    if len(totals) > 1:
                        out.label("ambiguous")
                    if fin - arrival + 1 not in totals:
                        P("C06:uncontended-duration", f"arrived tick {arrival}, finished tick {fin}: {fin - arrival + 1} ticks, operators need {sorted(totals)} (cpus {cpu_of})")
        elif c["nfail"]:
            P("C06:uncontended-failure", f"an uncontended pipeline with at most 0.5 GB per segment had {c['nfail']} failed container(s)")
    out.nontrivial = ("two_classes_completed" in out.labels and c["nfail"] > 0) or unc_done
    return out
