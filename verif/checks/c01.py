"""C01 - operators never start before their parents have completed; DAG iteration is a topological permutation."""
import itertools

from hypothesis import strategies as st

from verif.runner import Outcome, Stats, spec_hash, canon
from verif.gen_sim import sim_case, dag_parents, classify_dag
from verif.drive import monitors as M
from verif.drive import tape_sched
from ._sim_common import run_sim, common_labels, collect

ID = "C01"
RULE = ("(a) exhaustive: every DAG on 1..6 nodes in insertion order (33 867 parent-set choices) built with "
        "Pipeline.new_operator and with plain DAG.add_node, iterated three times: each iteration is a permutation of the "
        "node set with every node after all its parents, and the runtime status lists operators in such an order; plus "
        "Hypothesis DAGs of up to 40 nodes. (b) Hypothesis-generated simulations under naive / priority / priority-pool / "
        "overbook / starter and (c) under a tape-driven custom scheduler making admissible and inadmissible decisions "
        "(children ahead of or without parents, busy operators, suspensions): in the logged order of state changes an "
        "operator is set running only when every parent is completed; every snapshot (before/after scheduler, after "
        "executor) shows running/completed operators only with completed parents; a start request is refused exactly when a "
        "parent is unfinished and the refusal ends the run with an error. Non-trivial = (a) DAG with a multi-parent node or "
        "several roots; iteration is also checked after every insertion (a DAG iterated while it is being built); (b,c) multi-parent or multi-root DAG in which a child actually started, or a run in which an "
        "inadmissible start was reached and refused; distinct = sha1 of the case JSON")
ASSUMPTIONS = [
    "operator order inside a tick is taken from the log of state-change requests (a wrapper around PipelineRuntimeStatus.transition installed by the harness)",
    "a parent listed twice for one node is outside the statement (never generated)",
]
FLOORS = {"probe_with_8plus_parents_done_and_one_unfinished": 10, "probe_parent_suspending": 3, "probe_parent_running": 3, "dag_multi_parent": 0.2, "child_started": (0.2, "sim"), "sched_verif-tape": (0.2, "sim"), "bad_start_rejected": (0.01, "sim")}
SCHEDS = ["naive", "priority", "priority-pool", "overbook", "starter", "verif-tape", "verif-tape", "verif-tape"]


def plan(tier):
    return [{"kind": "function", "func": "exhaustive_dags"},
            {"kind": "hypothesis", "examples": 3000 if tier == "quick" else 100000},
            {"kind": "hypothesis", "examples": 300 if tier == "quick" else 5000, "module": "verif.checks.c01_dag",
             "shards": 4, "shard_base": 100}]


@st.composite
def case(draw, tier):
    from verif.checks.c12 import preempt_case
    c = draw(st.one_of(sim_case(SCHEDS, tier), sim_case(SCHEDS, tier), sim_case(SCHEDS, tier), preempt_case(tier)))
    if c["params"]["scheduler_algo"] == "priority" and "random_seed" in c["params"] and c["params"]["random_seed"] == 0 and draw(st.booleans()):
        c["params"]["scheduler_algo"] = "verif-tape"      # the preemption workload under arbitrary custom decisions
    if c["params"]["scheduler_algo"] == "verif-tape":
        c["tape"] = draw(st.lists(st.integers(0, 2 ** 16), min_size=5, max_size=120))
        mode = draw(st.integers(0, 4))
        if mode in (1, 2):
            # probe policy: one certainly inadmissible decision at a drawn round, whatever its unfinished parent is doing then
            tps = c["params"]["ticks_per_second"]
            ram_pool = c["params"]["ram_gb_per_pool"] = draw(st.sampled_from([64, 100, 500, 8]))
            c["params"]["multi_operator_containers"] = draw(st.sampled_from([True, True, True, False]))
            c["params"]["cpus_per_pool"] = draw(st.sampled_from([4, 2, 8]))
            c["probe"] = {"round": draw(st.integers(0, 20)), "k": draw(st.integers(1, 3)),
                          "ram": round(ram_pool * draw(st.sampled_from([0.3, 0.45, 0.1])), 6), "probe_ram": round(ram_pool * 0.05, 6)}
            n = draw(st.integers(3, 5))
            failing = draw(st.sampled_from([-1, -1, -1, 0, 1, 2]))
            ops = [{"parents": [i - 1] if i else [], "segs": [{"cpu": (draw(st.integers(0, 3)) + 0.5) / tps, "law": "const",
                                                              "mem": 10 * ram_pool if i == failing else 0.01, "read": 0.0}]}
                   for i in range(n)]
            if draw(st.integers(0, 1)) == 0:
                # wide fan-in: 9-14 roots of very different lengths and one sink that lists them in a drawn order; the probe
                # tries to start the sink while some (often only one or two) of its parents are unfinished
                nroots = draw(st.integers(9, 14))
                long_ones = set(draw(st.lists(st.integers(0, nroots - 1), min_size=1, max_size=3)))
                ops = [{"parents": [], "segs": [{"cpu": ((12 if i in long_ones else draw(st.integers(0, 2))) + 0.5) / tps, "law": "const",
                                                 "mem": 0.01, "read": 0.0}]} for i in range(nroots)]
                order = list(draw(st.permutations(range(nroots))))
                if draw(st.booleans()):
                    order = [i for i in order if i not in long_ones] + [i for i in order if i in long_ones]   # the slow parents listed last
                ops.append({"parents": order, "segs": [{"cpu": 0.5 / tps, "law": "const", "mem": 0.01, "read": 0.0}]})
                c["probe"]["min_done"] = nroots - len(long_ones)
                c["params"]["cpus_per_pool"] = draw(st.sampled_from([16, 8, 32]))
                c["probe"]["ram"] = round(ram_pool * 0.02, 6)
                c["probe"]["round"] = draw(st.integers(2, 12))
            c["arrivals"] = [[0, {"prio": 3, "ops": ops}] for _ in range(draw(st.integers(1, 2)))] + c["arrivals"][:2]
            c["arrivals"].sort(key=lambda a: a[0])
        if mode == 0:
            # eager custom policy on identical pipelines: suspensions that start and end together, immediate re-assignment
            tps = c["params"]["ticks_per_second"]
            ram_pool = c["params"]["ram_gb_per_pool"]
            c["eager_ram"] = round(ram_pool * draw(st.sampled_from([0.1, 0.2, 0.05])), 6)
            c["params"]["multi_operator_containers"] = True
            c["params"]["cpus_per_pool"] = draw(st.sampled_from([4, 2, 3, 8]))
            n = draw(st.integers(3, 5))
            ops = [{"parents": [i - 1] if i else [], "segs": [{"cpu": (draw(st.integers(0, 1)) + 0.5) / tps, "law": "const", "mem": 0.01, "read": 0.0}]}
                   for i in range(n)]
            c["arrivals"] = [[0, {"prio": 3, "ops": ops}] for _ in range(draw(st.integers(2, 4)))] + c["arrivals"][:2]
            c["arrivals"].sort(key=lambda a: a[0])
    return c


def strategy(tier):
    return case(tier)


def run_case(spec):
    out = Outcome()
    if "dag_parents" in spec:
        from verif.checks import c01_dag
        return c01_dag.run_case(spec)
    tape = spec["params"]["scheduler_algo"] == "verif-tape"
    if tape:
        tape_sched.ensure_registered()
        tape_sched.set_tape(spec["tape"], spec.get("eager_ram"), spec.get("probe"))
    rec, params = run_sim(spec)
    common_labels(out, spec, rec)
    out.label("sim")
    P = collect(out, {"C01"})
    info = {}
    M.mon_dependencies(rec, P, info)
    if info.get("children_started"):
        out.label("child_started")
    if info.get("bad_start_rejected"):
        out.label("bad_start_rejected")
    if tape:
        for mv in tape_sched.moves():
            if mv[0] == "probe":
                for stt in mv[2]:
                    out.label("probe_parent_" + stt)
                if len(mv) > 3 and mv[3] >= 8:
                    out.label("probe_with_8plus_parents_done_and_one_unfinished")
    if rec.exception is not None:
        out.label("run_ended_with_error")
        if not tape:
            e = rec.exception
            p = spec["params"]
            d8 = (p["scheduler_algo"] == "priority-pool" and not p["multi_operator_containers"])
            if "Dependencies not satisfied" in str(e):
                P("C01:shipped-scheduler-started-child-early", f"tick {rec.exception_tick}: {p['scheduler_algo']}: {e}")
    multi = any(l in out.labels for l in ("dag_multi_parent", "dag_multi_root"))
    out.nontrivial = (multi and bool(info.get("children_started"))) or bool(info.get("bad_start_rejected"))
    return out


# ----------------------------------------------------------------------------- (a) exhaustive DAG iteration

def all_dags(n):
    """parent index lists for all DAGs on n nodes in insertion order"""
    ranges = [range(1 << i) for i in range(n)]
    for masks in itertools.product(*ranges):
        yield [[j for j in range(i) if masks[i] >> j & 1] for i in range(n)]


def check_order(order, nodes, parents_of, what):
    if len(order) != len(nodes) or set(map(id, order)) != set(map(id, nodes)):
        return f"{what}: visited {len(order)} nodes ({len(set(map(id, order)))} distinct) of {len(nodes)}"
    pos = {id(x): k for k, x in enumerate(order)}
    for x in nodes:
        for q in parents_of(x):
            if pos[id(q)] > pos[id(x)]:
                return f"{what}: a node is visited before one of its parents"
    return None


def check_dag(parents):
    from eudoxia.utils.dag import DAG, Node
    from eudoxia.workload.pipeline import Pipeline
    from eudoxia.utils import Priority
    # plain DAG
    d = DAG()
    nodes = []
    for ps in parents:
        nd = Node()
        d.add_node(nd, [nodes[j] for j in ps] or None)
        nodes.append(nd)
    for k in range(3):
        why = check_order(list(d), nodes, lambda x: x.parents, f"DAG iteration #{k + 1}")
        if why:
            return why
    p = Pipeline("p", Priority.QUERY)
    ops = []
    for ps in parents:
        ops.append(p.new_operator([ops[j] for j in ps] or None))
    for k in range(3):
        why = check_order(list(p.values), ops, lambda x: x.parents, f"pipeline iteration #{k + 1}")
        if why:
            return why
    # iterations that are alive at the same time: an outer walk with a complete inner walk at every step, two walks in
    # lock-step, and the natural `for op in p.values: op.state()` on a fresh pipeline (state() builds the runtime status,
    # which itself walks the DAG)
    outer = []
    for x in d:
        outer.append(x)
        why = check_order(list(d), nodes, lambda y: y.parents, "inner DAG iteration during an outer one")
        if why:
            return why
    why = check_order(outer, nodes, lambda y: y.parents, "outer DAG iteration around inner ones")
    if why:
        return why
    pairs = list(zip(d, d))
    why = check_order([a for a, _ in pairs], nodes, lambda y: y.parents, "first of two lock-step iterations") or \
        check_order([b for _, b in pairs], nodes, lambda y: y.parents, "second of two lock-step iterations")
    if why:
        return why
    p3 = Pipeline("p3", Priority.QUERY)
    o3 = []
    for ps in parents:
        o3.append(p3.new_operator([o3[j] for j in ps] or None))
    walked = []
    for op in p3.values:
        op.state()
        walked.append(op)
    why = check_order(walked, o3, lambda y: y.parents, "`for op in p.values: op.state()` on a fresh pipeline")
    if why:
        return why
    # the caller keeps using the list it passed as `parents` (one list object, cleared and refilled for every node):
    # the DAG must have taken what it needed at insertion time
    d4 = DAG()
    n4 = []
    shared = []
    for ps in parents:
        shared[:] = [n4[j] for j in ps]
        nd = Node()
        d4.add_node(nd, shared if ps else None)
        n4.append(nd)
    shared.clear()
    for k, ps in enumerate(parents):
        if [id(q) for q in n4[k].parents] != [id(n4[j]) for j in ps]:
            return f"node {k}: parents changed after the caller reused the list it had passed (declared {ps})"
    why = check_order(list(d4), n4, lambda y: y.parents, "DAG built from a reused parents list")
    if why:
        return why
    # a pipeline that is iterated while it is still being built (iteration after every insertion)
    d2 = DAG()
    n2 = []
    for k, ps in enumerate(parents):
        nd = Node()
        d2.add_node(nd, [n2[j] for j in ps] or None)
        n2.append(nd)
        why = check_order(list(d2), n2, lambda x: x.parents, f"DAG iteration after inserting node {k}")
        if why:
            return why
    p2 = Pipeline("p2", Priority.QUERY)
    o2 = []
    for k, ps in enumerate(parents):
        o2.append(p2.new_operator([o2[j] for j in ps] or None))
        why = check_order(list(p2.values), o2, lambda x: x.parents, f"pipeline iteration after inserting operator {k}")
        if why:
            return why
    rs = p.runtime_status()
    why = check_order(list(rs.operator_states.keys()), ops, lambda x: x.parents, "runtime status listing")
    if why:
        return why
    from eudoxia.workload.runtime_status import OperatorState
    why = check_order(rs.get_ops(list(OperatorState)), ops, lambda x: x.parents, "get_ops listing")
    if why:
        return why
    why = check_order(list(p.values), ops, lambda x: x.parents, "pipeline iteration after runtime status")
    return why


def exhaustive_dags(tier, seed, shard, nshards):
    st_ = Stats()
    viol = None
    k = 0
    for n in range(1, 7):
        for parents in all_dags(n):
            k += 1
            if k % nshards != shard:
                continue
            st_.evaluations += 1
            labels = classify_dag(parents)
            for l in labels:
                st_.labels[l] += 1
            spec = {"dag_parents": parents}
            if "dag_multi_parent" in labels or "dag_multi_root" in labels:
                st_.nontrivial.add(spec_hash(spec))
                if len(st_.samples) < 2 and n == 4:
                    st_.samples.append((len(canon(spec)), spec_hash(spec), spec, labels))
            why = check_dag(parents)
            if why and viol is None:
                viol = {"spec": spec, "problem": {"key": "C01:dag-iteration", "msg": why, "known": None}}
    res = {"shard": shard, "stats": st_.to_json(), "violation": viol, "harness": None}
    res["stats"]["exhaustive"] = {"part": "dag-iteration", "cases": st_.evaluations,
                                  "what": "every DAG on 1..6 nodes in insertion order (33867), two construction styles, three iterations each"}
    return res
