"""C03 / C04 in full simulations: the conservation and memory-limit monitor over every tick of generated
simulations under all shipped schedulers and the tape-driven custom scheduler."""
from hypothesis import strategies as st

from verif.runner import Outcome
from verif.gen_sim import sim_case
from verif.drive import monitors as M
from verif.drive import tape_sched
from verif.checks._sim_common import run_sim, common_labels, collect
from verif.checks.c12 import preempt_case

ID = "C03"
OWN = {"C03"}
SCHEDS = ["priority", "naive", "priority-pool", "overbook", "starter", "verif-tape"]


@st.composite
def case(draw, tier):
    c = draw(st.one_of(sim_case(SCHEDS, tier), sim_case(SCHEDS, tier), preempt_case(tier)))
    if c["params"]["scheduler_algo"] == "verif-tape":
        c["tape"] = draw(st.lists(st.integers(0, 2 ** 16), min_size=5, max_size=120))
    return c


def strategy(tier):
    return case(tier)


def run_case_for(own):
    def run_case(spec):
        if "steps" in spec:     # a pool-machine replay file
            import importlib
            return importlib.import_module("verif.checks.c03" if own == {"C03"} else "verif.checks.c04").run_case(spec)
        out = Outcome()
        if spec["params"]["scheduler_algo"] == "verif-tape":
            tape_sched.ensure_registered()
            tape_sched.set_tape(spec["tape"], spec.get("eager_ram"))
        rec, params = run_sim(spec)
        c = common_labels(out, spec, rec)
        out.label("full_simulation")
        P = collect(out, own)
        M.mon_conservation(rec, P, {}, params["allow_memory_overcommit"])
        out.nontrivial = bool(c["nfail"] and (c["nsus"] or c["retry"]))
        return out
    return run_case


run_case = run_case_for(OWN)
