"""C19 - the REST bridge is transparent and keeps its protocol promises."""
import http.server
import json
import math
import os
import threading
import traceback

from hypothesis import strategies as st

from verif.runner import Outcome
from verif.gen_sim import sim_case
from verif.drive.observed_run import observed_run, schedule_workload

os.environ.setdefault("NO_PROXY", "127.0.0.1,localhost")
os.environ.setdefault("no_proxy", "127.0.0.1,localhost")

ID = "C19"
RULE = ("Hypothesis-generated runs of run_simulator(scheduler_algo='rest') against a loop-back HTTP server in a thread; external "
        "policies: a line-by-line Python port of go/naive/main.go and a tape-driven policy making arbitrary admissible multi-operator "
        "assignments and suspensions from the JSON state alone, and a `sized` policy that starts every ready operator alone under a memory "
        "limit given by its position (siblings are OOM-killed after different numbers of ticks and retried at once, so that they swap "
        "failed / running between two consecutive calls); DAG workloads and generator workloads, poll intervals 0 / below one "
        "tick / several ticks, tick rates 1..1000. While the simulator is blocked in the request the handler compares the body with "
        "an independent serialisation of the live objects (results of the last tick, pool and container figures, operator states, "
        "is_complete / has_failures), checks operator entries carry exactly {id, state, is_assignable_state, parents_complete} and no "
        "segment field appears anywhere, new and other pipelines are disjoint, a completed pipeline is reported complete exactly once "
        "(in the call after it completed) and never again, a call happens in every tick with an arrival or a result and idle calls "
        "are >= one poll interval apart, tick strictly increasing; the decisions of the reply equal the decisions the executor "
        "receives; and an in-process scheduler replaying the recorded decisions on an identical workload yields identical per-tick "
        "results and statistics. Non-trivial = run with >= 1 completion report and >= 1 idle poll call (tape policy: or a "
        "suspension); distinct = sha1 of the case JSON")
ASSUMPTIONS = [
    "the Go reference server cannot be built here (no Go toolchain): it is exercised through a line-by-line Python port; the side under test is the Python bridge",
    "the origin of the `tick` field is not fixed by the statement (the bridge counts from 1): only monotonicity is required",
]
FLOORS = {"completion_reported": 0.2, "idle_poll_call": 0.2, "policy_tape": 0.2, "had_suspension": 1, "siblings_swapped_states_between_calls": 3}
FORBIDDEN_KEYS = {"baseline_cpu_seconds", "storage_read_gb", "memory_gb", "cpu_scaling", "segments", "values", "scaling_func"}
REPLAY_KEY = "verif-replay"
_replay = {"decisions": {}, "registered": False}


def plan(tier):
    return [{"kind": "hypothesis", "examples": 600 if tier == "quick" else 8000}]


@st.composite
def case(draw, tier):
    tps = draw(st.sampled_from([10, 1, 2, 5, 20, 100, 1000]))
    c = draw(sim_case(["rest"], tier, max_pipes=8, force={"tps": tps}))
    p = c["params"]
    nticks = draw(st.sampled_from([40, 20, 80, 10, 1]))
    p["duration"] = (nticks + 0.5) / tps
    p["rest_poll_interval"] = draw(st.sampled_from([0, 0.5 / tps, 1.0 / tps, 2.5 / tps, 3.0 / tps, 0.25, 0.75, 0.29, 7.0 / tps, 1.0]))
    p["allow_memory_overcommit"] = draw(st.sampled_from([False, False, True]))
    # arrivals were drawn for another tick rate: rescale the segment sizes to this one
    c["policy"] = draw(st.sampled_from(["go_naive", "tape", "tape"]))
    c["tape"] = draw(st.lists(st.integers(0, 2 ** 16), min_size=5, max_size=60))
    if draw(st.integers(0, 7)) == 0:
        c["workload"] = "generator"
        c["arrivals"] = []
        p.update({"waiting_seconds_mean": draw(st.sampled_from([2.0, 0.5, 5.0])), "num_pipelines": draw(st.integers(1, 3)),
                  "num_operators": draw(st.integers(1, 4)), "ticks_per_second": 10, "duration": draw(st.sampled_from([20.05, 40.05])),
                  "cpus_per_pool": 16, "ram_gb_per_pool": 128, "rest_poll_interval": draw(st.sampled_from([0, 0.25, 1.0, 0.75]))})
    else:
        for a in c["arrivals"]:
            a[0] = min(a[0], nticks)
    return c


@st.composite
def branchy_rest_case(draw, tier):
    """fan-out DAGs in single-operator containers with operators that OOM, driven by the tape policy: failures, retries and
    sibling state changes between consecutive calls"""
    from verif.checks.c07 import branchy_case
    c = draw(branchy_case())
    p = c["params"]
    p["scheduler_algo"] = "rest"
    p["allow_memory_overcommit"] = draw(st.booleans())
    p["rest_poll_interval"] = draw(st.sampled_from([1.0, 0, 0.25, 5.0]))
    c["policy"] = "tape"
    c["tape"] = draw(st.lists(st.integers(0, 2 ** 16), min_size=5, max_size=60))
    return c


@st.composite
def swap_rest_case(draw, tier):
    """sibling operators of one pipeline, each alone in a container whose memory limit (a whole number of GB, drawn per
    operator position) is below what it reads: every sibling is OOM-killed after a different number of ticks and retried at
    once by the `sized` policy, so that between two consecutive calls one sibling goes failed -> running while another goes
    running -> failed (same histogram of states, different operators) - unless an idle poll falls in between"""
    tps = draw(st.sampled_from([10, 10, 5, 20]))
    params = {"scheduler_algo": "rest", "ticks_per_second": tps, "duration": (draw(st.sampled_from([60, 40, 90])) + 0.5) / tps,
              "num_pools": draw(st.sampled_from([1, 1, 2])), "cpus_per_pool": 16, "ram_gb_per_pool": 128,
              "multi_operator_containers": False, "allow_memory_overcommit": draw(st.booleans()), "random_seed": 0,
              "interactive_prob": 0.3, "query_prob": 0.1, "batch_prob": 0.6,
              "rest_poll_interval": draw(st.sampled_from([100.0, 5.0, 100.0, 2.0, 0]))}
    arrivals = []
    for _ in range(draw(st.integers(1, 2))):
        ops = [{"parents": [], "segs": [{"cpu": 0.5 / tps, "law": "const", "mem": None, "read": 0.25 * 20.0 / tps}]}]
        for i in range(draw(st.integers(2, 4))):
            # most siblings read far more than any limit the policy hands out; a few are small enough to complete
            read = draw(st.sampled_from([400.0, 400.0, 400.0, 3.0, 30.0]))
            ops.append({"parents": [0], "segs": [{"cpu": (draw(st.integers(0, 2)) + 0.5) / tps, "law": "const", "mem": None, "read": read}]})
        arrivals.append([draw(st.integers(0, 2)), {"prio": draw(st.sampled_from([3, 2, 1])), "ops": ops}])
    arrivals.sort(key=lambda a: a[0])
    return {"params": params, "arrivals": arrivals, "policy": "sized", "tape": [],
            "sizes": draw(st.lists(st.sampled_from([2, 4, 6, 8, 10, 14, 20]), min_size=3, max_size=5))}


def strategy(tier):
    return st.one_of(case(tier), case(tier), case(tier), case(tier), case(tier), case(tier), branchy_rest_case(tier), branchy_rest_case(tier),
                     swap_rest_case(tier))


# ----------------------------------------------------------------------------- external policies (JSON in, JSON out)

def go_naive(body):
    """port of go/naive/main.go: schedule()"""
    allp = list(body["new_pipelines"]) + list(body["other_pipelines"])
    assigned = set()
    asg = []
    for pool in body["pools"]:
        if pool["avail_cpu"] <= 0 or pool["avail_ram_gb"] <= 0:
            continue
        for p in allp:
            if p["is_complete"] or p["has_failures"]:
                continue
            found = False
            for op in p["operators"]:
                if not op["is_assignable_state"] or not op["parents_complete"] or op["id"] in assigned:
                    continue
                asg.append({"operator_ids": [op["id"]], "cpu": pool["avail_cpu"], "ram_gb": pool["avail_ram_gb"], "pool_id": pool["pool_id"],
                            "priority": p["priority"], "is_resume": False, "force_run": False})
                assigned.add(op["id"])
                found = True
                break
            if found:
                break
    return {"suspensions": [], "assignments": asg}


class SizedPolicy:
    """every ready assignable operator at once, alone, 1 CPU, memory limit by its position in the pipeline's listing"""

    def __init__(self, sizes):
        self.sizes = list(sizes) or [4]

    def __call__(self, body):
        free = {pl["pool_id"]: [pl["avail_cpu"], pl["avail_ram_gb"]] for pl in body["pools"]}
        asg = []
        for p in list(body["new_pipelines"]) + list(body["other_pipelines"]):
            for i, op in enumerate(p["operators"]):
                if not (op["is_assignable_state"] and op["parents_complete"]):
                    continue
                ram = float(self.sizes[i % len(self.sizes)])
                pool = next((k for k, (c, r) in sorted(free.items()) if c >= 1 and r >= ram + 1), None)
                if pool is None:
                    continue
                free[pool][0] -= 1
                free[pool][1] -= ram
                asg.append({"operator_ids": [op["id"]], "cpu": 1, "ram_gb": ram, "pool_id": pool, "priority": p["priority"],
                            "is_resume": False, "force_run": False})
        return {"suspensions": [], "assignments": asg}


class TapePolicy:
    def __init__(self, tape, multi, overcommit=False):
        self.tape = list(tape) or [0]
        self.pos = 0
        self.multi = multi
        self.overcommit = overcommit

    def nxt(self, n):
        v = self.tape[self.pos % len(self.tape)]
        self.pos += 1
        return v % n if n > 0 else 0

    def __call__(self, body):
        allp = list(body["new_pipelines"]) + list(body["other_pipelines"])
        state = {op["id"]: op["state"] for p in allp for op in p["operators"]}
        sus = []
        free = {pl["pool_id"]: [pl["avail_cpu"], pl["avail_ram_gb"]] for pl in body["pools"]}
        # a running container whose next operator is still 'assigned' sits at an operator boundary
        if self.nxt(2) == 0:
            cands = []
            for pl in body["pools"]:
                for c in pl["active_containers"]:
                    sts = [state.get(i) for i in c["operator_ids"]]
                    rest = [s for s in sts if s != "completed"]
                    if rest and rest[0] == "assigned" and len(rest) < len(sts):
                        cands.append((c["container_id"], pl["pool_id"]))
            if cands:
                cid, pid = cands[self.nxt(len(cands))]
                sus.append({"container_id": cid, "pool_id": pid})
        asg = []
        taken = set()
        used_pools = set()
        for _ in range(self.nxt(4)):
            live = []
            for p in allp:
                ops = []
                have = set()
                for op in p["operators"]:
                    if op["id"] in taken or not op["is_assignable_state"]:
                        continue
                    ops.append(op)
                if ops:
                    live.append((p, ops))
            if not live:
                break
            p, ops = live[self.nxt(len(live))]
            done = {op["id"] for op in p["operators"] if op["state"] == "completed"}
            ready = [op for op in ops if op["parents_complete"]]
            if not ready:
                continue
            chosen = [ready[self.nxt(len(ready))]]
            if self.multi and self.nxt(4):
                # extend with later operators of the listing (topological order) - the bridge does not reveal edges, so only
                # operators whose parents are already complete can be added safely
                for op in ready:
                    if op not in chosen and self.nxt(3):
                        chosen.append(op)
                order = {op["id"]: k for k, op in enumerate(p["operators"])}
                chosen.sort(key=lambda op: order[op["id"]])
            if self.multi and len(live) >= 2 and self.nxt(6) == 0:
                # operators of a second pipeline appended to the same container (the executor allows it)
                p2, ops2 = live[self.nxt(len(live))]
                if p2["pipeline_id"] != p["pipeline_id"]:
                    ready2 = [op for op in ops2 if op["parents_complete"]]
                    if ready2:
                        chosen.append(ready2[self.nxt(len(ready2))])
            pools = [k for k, (c, r) in free.items() if c >= 1 and (r > 1e-6 or self.overcommit)]
            if not pools:
                break
            pool = pools[self.nxt(len(pools))]
            fc, fr = free[pool]
            cpu = 1 + self.nxt(int(fc))
            frac = [0.1, 0.25, 0.5, 1.0][self.nxt(4)]
            if self.overcommit and (self.nxt(4) == 0 or fr <= 1e-3):
                # admissible only because overcommit is on: a memory limit beyond what the pool has free
                ram = max(fr, 1.0) * 1.5 + 1.0
                free[pool][1] = fr - ram
            elif frac == 1.0 and pool not in used_pools:
                ram = fr                       # exactly the reported free RAM, and nothing else goes to this pool this round
                free[pool][1] = 0.0
            else:
                # stay clear of float rounding in the executor's sum: a fraction, rounded down to 1 MB
                ram = math.floor(fr * min(frac, 0.5) * 1000) / 1000
                if ram <= 0:
                    continue
                free[pool][1] = fr - ram - 1e-6
            used_pools.add(pool)
            free[pool][0] -= cpu
            for op in chosen:
                taken.add(op["id"])
            # the priority of a container is part of the external decision and need not be the pipeline's own
            prio = p["priority"] if self.nxt(4) else ["QUERY", "INTERACTIVE", "BATCH_PIPELINE"][self.nxt(3)]
            if prio != p["priority"]:
                self.other_priority = getattr(self, "other_priority", 0) + 1
            asg.append({"operator_ids": [op["id"] for op in chosen], "cpu": cpu, "ram_gb": ram, "pool_id": pool,
                        "priority": prio, "is_resume": bool(self.nxt(2)), "force_run": False})
        return {"suspensions": sus, "assignments": asg}


# ----------------------------------------------------------------------------- independent serialisation of the live objects

def expected_body(rec, reported_complete):
    ex = rec.executor

    def opd(op):
        st = op.pipeline.runtime_status().operator_states
        return {"id": str(op.id), "state": st[op].value, "is_assignable_state": st[op].value in ("pending", "failed"),
                "parents_complete": all(st[q].value == "completed" for q in op.parents)}

    def pd(p):
        st = p.runtime_status().operator_states
        return {"pipeline_id": p.pipeline_id, "priority": p.priority.name, "arrival_tick": rec.arrival_tick[p.pipeline_id],
                "is_complete": all(v.value == "completed" for v in st.values()), "has_failures": any(v.value == "failed" for v in st.values()),
                "operators": [opd(o) for o in p.values]}

    def cd(c):
        pids = {o.pipeline.pipeline_id for o in c.operators}
        return {"container_id": c.container_id, "pipeline_id": pids.pop() if len(pids) == 1 else "multiple_pipelines",
                "operator_ids": [str(o.id) for o in c.operators], "cpu": c.assignment.cpu, "ram_gb": c.assignment.ram,
                "current_memory_gb": c.get_current_memory_usage(), "priority": c.assignment.priority.name}

    pools = [{"pool_id": i, "max_cpu": pl.max_cpu_pool, "max_ram_gb": pl.max_ram_pool, "avail_cpu": pl.avail_cpu_pool,
              "avail_ram_gb": pl.avail_ram_pool, "consumed_ram_gb": sum(c.get_current_memory_usage() for c in pl.active_containers),
              "active_containers": [cd(c) for c in pl.active_containers], "suspending_containers": [cd(c) for c in pl.suspending_containers],
              "suspended_containers": [cd(c) for c in pl.suspended_containers]} for i, pl in enumerate(ex.pools)]
    t = rec.cur.t
    prev = rec.ticks[t - 1] if t >= 1 else None
    results = []
    if prev is not None and prev.results:
        for r in prev.results:
            results.append({"ops": [str(_op(rec, x).id) for x in r.ops], "cpu": r.cpu, "ram": r.ram,
                            "priority": {1: "QUERY", 2: "INTERACTIVE", 3: "BATCH_PIPELINE"}[r.prio], "pool_id": r.pool,
                            "container_id": r.cid, "error": r.error})
    new_ids = list(rec.cur.arrivals)
    new = [pd(rec.pipelines[i]) for i in new_ids]
    other = [pd(rec.pipelines[i]) for i in rec.arrival_order if i not in new_ids and i not in reported_complete]
    return {"results": results, "new_pipelines": new, "other_pipelines": other, "pools": pools}


def _op(rec, ref):
    pid, idx = ref
    for o in rec.pipelines[pid].values.node_lookup.values():
        if o._vidx == idx:
            return o
    raise KeyError(ref)


def approx_eq(a, b, path=""):
    if isinstance(a, bool) or isinstance(b, bool):
        return None if a is b else f"{path}: {a!r} vs {b!r}"
    if isinstance(a, (int, float)) and isinstance(b, (int, float)):
        return None if math.isclose(a, b, rel_tol=1e-9, abs_tol=1e-9) else f"{path}: {a!r} vs {b!r}"
    if isinstance(a, dict) and isinstance(b, dict):
        if a.keys() != b.keys():
            return f"{path}: keys {sorted(a)} vs {sorted(b)}"
        for k in a:
            d = approx_eq(a[k], b[k], path + "." + k)
            if d:
                return d
        return None
    if isinstance(a, list) and isinstance(b, list):
        if len(a) != len(b):
            return f"{path}: {len(a)} vs {len(b)} entries"
        for i, (x, y) in enumerate(zip(a, b)):
            d = approx_eq(x, y, f"{path}[{i}]")
            if d:
                return d
        return None
    return None if a == b else f"{path}: {a!r} vs {b!r}"


def keyed(x):
    """order-insensitive form: lists of objects that carry an identifier become dicts keyed by it"""
    if isinstance(x, list):
        if x and all(isinstance(v, dict) for v in x):
            for key in ("pipeline_id", "container_id", "id", "pool_id"):
                if all(key in v for v in x) and key != "pipeline_id" or (key == "pipeline_id" and all("operators" in v for v in x)):
                    if len({v[key] for v in x}) == len(x):
                        return {str(v[key]): keyed(v) for v in x}
        return [keyed(v) for v in x]
    if isinstance(x, dict):
        return {k: keyed(v) for k, v in x.items()}
    return x


def forbidden_keys(x):
    if isinstance(x, dict):
        for k, v in x.items():
            if k in FORBIDDEN_KEYS:
                return k
            f = forbidden_keys(v)
            if f:
                return f
    elif isinstance(x, list):
        for v in x:
            f = forbidden_keys(v)
            if f:
                return f
    return None


# ----------------------------------------------------------------------------- replay scheduler

def ensure_replay():
    if _replay["registered"]:
        return
    from eudoxia.scheduler.decorators import register_scheduler_init, register_scheduler, INIT_ALGOS, SCHEDULING_ALGOS
    INIT_ALGOS.pop(REPLAY_KEY, None)
    SCHEDULING_ALGOS.pop(REPLAY_KEY, None)

    @register_scheduler_init(key=REPLAY_KEY)
    def init(s):
        s.t = -1
        s.pl = {}

    @register_scheduler(key=REPLAY_KEY)
    def algo(s, results, pipelines):
        from eudoxia.executor.assignment import Assignment, Suspend
        from eudoxia.utils import Priority
        s.t += 1
        for p in pipelines:
            s.pl[p.pipeline_id] = p
        sus, asg = _replay["decisions"].get(s.t, ([], []))
        out_s = [Suspend(cid, pool) for cid, pool in sus]
        out_a = []
        for ops, cpu, ram, pool, prio in asg:
            real = []
            for pid, i in ops:
                real.append([o for o in s.pl[pid].values.node_lookup.values() if o._vidx == i][0])
            out_a.append(Assignment(real, cpu, ram, Priority[prio], pool, real[0].pipeline.pipeline_id))
        return out_s, out_a

    _replay["registered"] = True


def make_workload(spec, params):
    if spec.get("workload") == "generator":
        from eudoxia.simulator import parse_args_with_defaults
        from eudoxia.workload import WorkloadGenerator
        return WorkloadGenerator(**parse_args_with_defaults(dict(params)))
    return schedule_workload(spec["arrivals"])


def run_case(spec):
    from eudoxia.executor.container import Container
    out = Outcome()
    problems = []

    def P(key, msg):
        if len(problems) < 6:
            problems.append((key, msg))

    params = dict(spec["params"])
    params["scheduler_algo"] = "rest"
    tps = params["ticks_per_second"]
    policy = go_naive if spec["policy"] == "go_naive" else SizedPolicy(spec.get("sizes")) if spec["policy"] == "sized" else TapePolicy(spec["tape"], params["multi_operator_containers"], params.get("allow_memory_overcommit", False))
    out.label("policy_" + spec["policy"])
    ctx = {"rec": None, "calls": [], "reported": {}, "decisions": {}, "last_tick_field": None, "handler_error": None, "init": 0}

    class H(http.server.BaseHTTPRequestHandler):
        def log_message(self, *a):
            pass

        def do_POST(self):
            body = json.loads(self.rfile.read(int(self.headers["Content-Length"])))
            if self.path == "/init":
                ctx["init"] += 1
                if "params" not in body:
                    P("C19:init-payload", f"/init body has keys {sorted(body)}")
                data = b"OK"
            else:
                resp = {"suspensions": [], "assignments": []}
                try:
                    rec = ctx["rec"]
                    t = rec.cur.t
                    exp = expected_body(rec, ctx["reported"])
                    for k in ("results", "new_pipelines", "other_pipelines", "pools"):
                        if k not in body:
                            P("C19:payload-missing-field", f"tick {t}: no {k}")
                            continue
                        d = approx_eq(keyed(body[k]), keyed(exp[k]), k)
                        if d:
                            P("C19:payload-not-true-state", f"tick {t}: {d}")
                    fk = forbidden_keys(body)
                    if fk:
                        P("C19:payload-reveals-resource-needs", f"tick {t}: field {fk}")
                    for p in body.get("new_pipelines", []) + body.get("other_pipelines", []):
                        for op in p["operators"]:
                            if set(op) != {"id", "state", "is_assignable_state", "parents_complete"}:
                                P("C19:operator-entry-fields", f"tick {t}: operator entry has fields {sorted(op)}")
                    newids = [p["pipeline_id"] for p in body.get("new_pipelines", [])]
                    oth = [p["pipeline_id"] for p in body.get("other_pipelines", [])]
                    if set(newids) & set(oth):
                        P("C19:new-and-other-overlap", f"tick {t}: {sorted(set(newids) & set(oth))}")
                    for p in body.get("other_pipelines", []) + body.get("new_pipelines", []):
                        if p["pipeline_id"] in ctx["reported"]:
                            P("C19:reported-after-complete", f"tick {t}: {p['pipeline_id']} appears again after it was reported complete in tick {ctx['reported'][p['pipeline_id']]}")
                    for p in body.get("other_pipelines", []) + body.get("new_pipelines", []):
                        if p["is_complete"]:
                            ctx["reported"].setdefault(p["pipeline_id"], t)
                    tf = body.get("tick")
                    if ctx["last_tick_field"] is not None and not (tf > ctx["last_tick_field"]):
                        P("C19:tick-not-increasing", f"tick field {tf} after {ctx['last_tick_field']}")
                    ctx["last_tick_field"] = tf
                    prev = rec.ticks[t - 1] if t >= 1 else None
                    eventful = bool(rec.cur.arrivals) or bool(prev is not None and prev.results)
                    ctx["calls"].append((t, eventful))
                    sig = {p["pipeline_id"]: tuple(o["state"] for o in p["operators"]) for p in exp["new_pipelines"] + exp["other_pipelines"]}
                    for pid, now in sig.items():
                        was = ctx.get("sig", {}).get(pid)
                        if was is not None and was != now and sorted(was) == sorted(now):
                            out.label("siblings_swapped_states_between_calls")
                    ctx["sig"] = sig
                    resp = policy(body)
                    opindex = {}
                    for pid, p in rec.pipelines.items():
                        for o in p.values.node_lookup.values():
                            opindex[str(o.id)] = (pid, o._vidx)
                    ctx["decisions"][t] = ([(s["container_id"], s["pool_id"]) for s in resp["suspensions"]],
                                           [(tuple(opindex[i] for i in a["operator_ids"]), a["cpu"], a["ram_gb"], a["pool_id"], a["priority"])
                                            for a in resp["assignments"]])
                except Exception:
                    ctx["handler_error"] = traceback.format_exc()
                data = json.dumps(resp).encode()
            self.send_response(200)
            self.send_header("Content-Type", "application/json")
            self.send_header("Content-Length", str(len(data)))
            self.end_headers()
            self.wfile.write(data)

    srv = http.server.HTTPServer(("127.0.0.1", 0), H)
    th = threading.Thread(target=srv.serve_forever, daemon=True)
    th.start()
    try:
        params["rest_scheduler_addr"] = f"127.0.0.1:{srv.server_address[1]}"
        # run A: over HTTP.  The Record is created by observed_run; the handler needs it while the run is in progress.
        import verif.drive.observed_run as OR
        orig_record = OR.Record

        class Rec(orig_record):
            def __init__(self):
                super().__init__()
                ctx["rec"] = self

        OR.Record = Rec
        try:
            Container.next_container_num = 1
            recA = observed_run(params, make_workload(spec, params))
        finally:
            OR.Record = orig_record
    finally:
        srv.shutdown()
        srv.server_close()
        th.join(timeout=5)
    if ctx["handler_error"] and not problems:
        raise RuntimeError("oracle failed inside the HTTP handler:\n" + ctx["handler_error"])
    if ctx["handler_error"]:
        # the handler had already recorded that the body was not the true state; what it tripped over afterwards (e.g. an
        # operator id of another run in the body) is a consequence of that
        for key, msg in problems:
            out.problem(key, msg)
        out.label("handler_tripped_after_problem")
        return out
    out.extra_evals = len(ctx["calls"])
    if recA.exception is not None:
        # an admissible external decision sequence must not make the run raise
        P("C19:http-run-raised", f"tick {recA.exception_tick}: {type(recA.exception).__name__}: {recA.exception}")
    else:
        # decisions executed exactly as given
        for tr in recA.ticks:
            want = ctx["decisions"].get(tr.t, ([], []))
            got_s = [(c, p) for c, p in tr.sus]
            got_a = [[[list(o) for o in a.ops], a.cpu, a.ram, a.pool, {1: "QUERY", 2: "INTERACTIVE", 3: "BATCH_PIPELINE"}.get(a.prio)] for a in tr.asg]
            want_a = [[[list(o) for o in ops], c, r, pl, pr] for ops, c, r, pl, pr in want[1]]
            if got_s != list(want[0]):
                P("C19:suspensions-not-as-given", f"tick {tr.t}: reply {want[0]}, executor received {got_s}")
            if approx_eq(got_a, want_a, "assignments"):
                P("C19:assignments-not-as-given", f"tick {tr.t}: reply {want_a}, executor received {got_a}")
        # call discipline
        called = {t for t, _ in ctx["calls"]}
        for tr in recA.ticks:
            prev = recA.ticks[tr.t - 1] if tr.t >= 1 else None
            if (tr.arrivals or (prev is not None and prev.results)) and tr.t not in called:
                P("C19:no-call-in-eventful-tick", f"tick {tr.t}: arrivals {tr.arrivals}, results last tick {len(prev.results) if prev and prev.results else 0}")
        last = None
        interval = params["rest_poll_interval"]
        for t, eventful in ctx["calls"]:
            if not eventful:
                out.label("idle_poll_call")
                if last is not None and (t - last) / tps < interval * (1 - 1e-9) - 1e-12:
                    P("C19:idle-call-too-soon", f"idle call in tick {t}, previous call in tick {last}: {(t - last) / tps} s < poll interval {interval} s")
            last = t
        # completion reports: exactly once, in the call after the completing tick
        finish = {}
        for tr in recA.ticks:
            if tr.post_exec:
                for pid, states in tr.post_exec.states.items():
                    if pid not in finish and states and all(x == "completed" for x in states):
                        finish[pid] = tr.t
        nt = len(recA.ticks)
        for pid, ft in finish.items():
            if ft < nt - 1:
                later_calls = sorted(t for t in called if t > ft)
                if pid not in ctx["reported"]:
                    if later_calls:
                        P("C19:completion-not-reported", f"{pid} completed in tick {ft} of {nt} and was never reported complete (calls in ticks {later_calls[:5]})")
                elif ctx["reported"][pid] != later_calls[0]:
                    P("C19:completion-reported-late", f"{pid} completed in tick {ft}, first call afterwards in tick {later_calls[0]}, reported complete in tick {ctx['reported'][pid]}")
        for pid in ctx["reported"]:
            if pid not in finish:
                P("C19:reported-complete-but-unfinished", f"{pid}")
        if ctx["reported"]:
            out.label("completion_reported")
        if ctx["init"] != 1:
            P("C19:init-calls", f"/init called {ctx['init']} times")
    if getattr(policy, "other_priority", 0):
        out.label("container_priority_differs_from_pipeline")
    nsus = sum(len(tr.sus) for tr in recA.ticks)
    if nsus:
        out.label("had_suspension")
    # differential: replay the recorded decisions in-process
    if recA.exception is None and not problems:
        ensure_replay()
        _replay["decisions"] = ctx["decisions"]
        pb = dict(params)
        pb["scheduler_algo"] = REPLAY_KEY
        Container.next_container_num = 1
        recB = observed_run(pb, make_workload(spec, params))
        if recB.exception is not None:
            P("C19:replay-raised", f"in-process replay of the same decisions raised {type(recB.exception).__name__}: {recB.exception}")
        else:
            ra = [[(r.cid, r.error, r.states) for r in (tr.results or [])] for tr in recA.ticks]
            rb = [[(r.cid, r.error, r.states) for r in (tr.results or [])] for tr in recB.ticks]
            if ra != rb:
                k = next((i for i, (x, y) in enumerate(zip(ra, rb)) if x != y), None)
                P("C19:results-differ-from-in-process-replay", f"first difference in tick {k}: http {ra[k] if k is not None else None}, replay {rb[k] if k is not None else None}")
            da, db = flat(recA.stats.to_dict()), flat(recB.stats.to_dict())
            if not all(same(x, y) for x, y in zip(da, db)):
                P("C19:statistics-differ-from-in-process-replay", f"http {recA.stats.to_dict()} replay {recB.stats.to_dict()}")
    for key, msg in problems:
        out.problem(key, msg)
    out.nontrivial = "completion_reported" in out.labels and ("idle_poll_call" in out.labels or nsus > 0)
    return out


def flat(d):
    out = []
    for k in sorted(d):
        if isinstance(d[k], dict):
            out.extend(flat(d[k]))
        else:
            out.append(d[k])
    return out


def same(x, y):
    if isinstance(x, float) and isinstance(y, float) and math.isnan(x) and math.isnan(y):
        return True
    return x == y
