"""C17 - naive scheduler: whole-pool FIFO without retries or preemption."""
from hypothesis import strategies as st
from verif.runner import Outcome
from verif.gen_sim import sim_case
from verif.drive import monitors as M
from ._sim_common import run_sim, common_labels, collect

ID = "C17"
RULE = ("Hypothesis-generated simulations with scheduler naive (1-4 pools of any size, DAG pipelines, both container modes, "
        "memory that makes some containers fail); per recorded round: at most one assignment per pool, its CPU and RAM equal "
        "that pool's free CPU and RAM in the pre-round snapshot, no suspension, no assignment for a pipeline that had a failed "
        "operator before the round, single-operator mode => exactly one operator and it was ready; no pipeline gets its first "
        "container in an earlier round than an older one. Non-trivial = run with >= 2 pools, a branching DAG and >= 1 failure; "
        "distinct = sha1 of the case JSON")
ASSUMPTIONS = ["arrival order = delivery order of the recording workload; order inside one round (different pools) is not constrained"]
FLOORS = {"had_failure": 0.1, "multi_pool": 0.3, "single_op_mode": 0.2}


def plan(tier):
    return [{"kind": "hypothesis", "examples": 2000 if tier == "quick" else 60000}]


@st.composite
def case(draw, tier):
    c = draw(sim_case(["naive"], tier))
    if draw(st.integers(0, 7)) == 0:
        # "pools of any size": a fractional number of (v)CPUs is a size too; the whole of it must be handed out
        c["params"]["cpus_per_pool"] = draw(st.sampled_from([2.5, 1.5, 0.5, 7.25]))
    return c


def strategy(tier):
    return case(tier)


def run_case(spec):
    out = Outcome()
    rec, params = run_sim(spec)
    c = common_labels(out, spec, rec)
    P = collect(out, {"C17"})
    if rec.exception is not None:
        out.label("run_raised")
    info = {}
    M.mon_naive(rec, P, info, params["multi_operator_containers"])
    if params["num_pools"] >= 2:
        out.label("multi_pool")
    if params["cpus_per_pool"] != int(params["cpus_per_pool"]):
        out.label("fractional_cpus")
    branching = any(l in out.labels for l in ("dag_fan_out", "dag_multi_parent", "dag_multi_root"))
    out.nontrivial = params["num_pools"] >= 2 and branching and c["nfail"] > 0
    return out
