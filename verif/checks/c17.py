"""C17 - naive scheduler: whole-pool FIFO without retries or preemption."""
from hypothesis import strategies as st
from verif.runner import Outcome
from verif.gen_sim import sim_case
from verif.drive import monitors as M
from ._sim_common import run_sim, common_labels, collect

ID = "C17"
RULE = ("Hypothesis-generated simulations with scheduler naive (1-4 pools of any size, DAG pipelines, both container modes, "
        "memory that makes some containers fail); per recorded round: at most one assignment per pool, its CPU and RAM equal "
        "that pool's free CPU and RAM in the pre-round snapshot, no suspension, no assignment for a pipeline that had a failed "
        "operator before the round, single-operator mode => exactly one operator and it was ready; no pipeline gets its first "
        "container in an earlier round than an older one. Non-trivial = run with >= 2 pools, a branching DAG and >= 1 failure; "
        "distinct = sha1 of the case JSON")
ASSUMPTIONS = ["arrival order = delivery order of the recording workload; order inside one round (different pools) is not constrained"]
FLOORS = {"had_failure": 0.1, "multi_pool": 0.3, "single_op_mode": 0.2}


def plan(tier):
    return [{"kind": "hypothesis", "examples": 2000 if tier == "quick" else 40000}]


@st.composite
def case(draw, tier):
    c = draw(sim_case(["naive"], tier))
    if draw(st.integers(0, 7)) == 0:
        # "pools of any size": a fractional number of (v)CPUs is a size too; the whole of it must be handed out
        c["params"]["cpus_per_pool"] = draw(st.sampled_from([2.5, 1.5, 0.5, 7.25]))
    return c


@st.composite
def forked_case(draw, tier):
    """single-operator containers on several pools, pipelines made of independent branches (root -> child), some operators
    far beyond the pool's RAM (certain OOM), plus small pipelines arriving over time as extra scheduling events: branches of
    one pipeline run side by side, one fails while another becomes ready"""
    tps = draw(st.sampled_from([10, 5, 2, 20]))
    ram = draw(st.sampled_from([64, 30, 100]))
    nticks = draw(st.sampled_from([60, 40, 90]))
    params = {"scheduler_algo": "naive", "ticks_per_second": tps, "duration": (nticks + 0.5) / tps,
              "num_pools": draw(st.sampled_from([2, 3, 2])), "cpus_per_pool": draw(st.sampled_from([4, 2, 8])), "ram_gb_per_pool": ram,
              "multi_operator_containers": False, "allow_memory_overcommit": False, "random_seed": 0,
              "interactive_prob": 0.3, "query_prob": 0.1, "batch_prob": 0.6}

    def seg(k, big):
        return {"cpu": (k + 0.5) / tps, "law": "const", "mem": round(ram * (1.5 if big else 0.05), 6), "read": 0.0}

    arrivals = []
    for _ in range(draw(st.integers(1, 3))):
        nb = draw(st.integers(2, 3))
        ops = [{"parents": [], "segs": [seg(draw(st.integers(0, 4)), False)]} for _ in range(nb)]
        for b in range(nb):
            ops.append({"parents": [b], "segs": [seg(draw(st.integers(0, 3)), draw(st.integers(0, 2)) == 0)]})
        if draw(st.booleans()):
            ops[draw(st.integers(0, nb - 1))]["segs"][0]["mem"] = round(ram * 1.5, 6)
        arrivals.append([draw(st.integers(0, 2)), {"prio": draw(st.sampled_from([3, 2, 1])), "ops": ops}])
    for _ in range(draw(st.integers(2, 8))):
        arrivals.append([draw(st.integers(0, 25)), {"prio": 3, "ops": [{"parents": [], "segs": [seg(draw(st.integers(0, 3)), False)]}]}])
    arrivals.sort(key=lambda a: a[0])
    return {"params": params, "arrivals": arrivals}


def strategy(tier):
    return st.one_of(case(tier), case(tier), case(tier), forked_case(tier))


def run_case(spec):
    out = Outcome()
    rec, params = run_sim(spec)
    c = common_labels(out, spec, rec)
    P = collect(out, {"C17"})
    if rec.exception is not None:
        out.label("run_raised")
    info = {}
    M.mon_naive(rec, P, info, params["multi_operator_containers"])
    if params["num_pools"] >= 2:
        out.label("multi_pool")
    if params["cpus_per_pool"] != int(params["cpus_per_pool"]):
        out.label("fractional_cpus")
    branching = any(l in out.labels for l in ("dag_fan_out", "dag_multi_parent", "dag_multi_root"))
    out.nontrivial = params["num_pools"] >= 2 and branching and c["nfail"] > 0
    return out
