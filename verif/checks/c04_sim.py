"""C04 in full simulations (see c03_sim)."""
from verif.checks.c03_sim import strategy, run_case_for  # noqa

ID = "C04"
run_case = run_case_for({"C04"})
