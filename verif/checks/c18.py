"""C18 - overbook: one operator and one CPU per container, full-pool RAM, CPU-bound."""
from hypothesis import strategies as st
from verif.runner import Outcome
from verif.gen_sim import sim_case
from verif.drive import monitors as M
from ._sim_common import run_sim, common_labels, collect

ID = "C18"
RULE = ("Hypothesis-generated simulations with scheduler overbook and overcommit on (1-4 pools, 1-64 CPUs, DAG pipelines, memory "
        "profiles that make the pool-level killer fire); every assignment: one operator, ready before the round, cpu == 1, "
        "ram == pool capacity; containers per pool <= CPUs after every tick; after a round with an arrival or a result no ready "
        "assignable operator of a non-abandoned pipeline remains while some pool has a free CPU (pre-round snapshot minus this "
        "round); once three failed results of a pipeline have been delivered no later assignment names it. Non-trivial = run "
        "with >= 1 abandoned pipeline or a round that filled a pool; distinct = sha1 of the case JSON")
ASSUMPTIONS = ["'live pipeline' = fewer than three failed containers delivered so far"]
FLOORS = {"had_failure": 0.1, "abandoned_pipeline": 0.01, "round_filled_pool": 0.05}


def plan(tier):
    return [{"kind": "hypothesis", "examples": 2000 if tier == "quick" else 40000}]


def strategy(tier):
    return sim_case(["overbook"], tier)


def run_case(spec):
    out = Outcome()
    rec, params = run_sim(spec)
    c = common_labels(out, spec, rec)
    P = collect(out, {"C18"})
    if rec.exception is not None:
        out.label("run_raised")
    info = {}
    M.mon_overbook(rec, P, info)
    if info.get("abandoned"):
        out.label("abandoned_pipeline")
    if info.get("round_filled_pool"):
        out.label("round_filled_pool")
    out.nontrivial = bool(info.get("abandoned") or info.get("round_filled_pool"))
    return out
