"""C12 - priority: strict priority order, work conservation, query-only preemption."""
from hypothesis import strategies as st
from verif.runner import Outcome
from verif.gen_sim import sim_case
from verif.drive import monitors as M
from ._sim_common import run_sim, common_labels, collect

ID = "C12"
RULE = ("Hypothesis-generated simulations with priority (1-3 pools) and priority-pool, mixed-priority bursts, DAG pipelines, both "
        "container modes, small pools and low tick rates so that suspensions last 1, 2 or many ticks, memory that forces retries; "
        "per recorded round (state after the scheduler phase, free resources = pre-round snapshot minus this round's "
        "assignments): no container of class c started while a ready PENDING operator of a higher class that shares its pools "
        "waits; a ready PENDING operator waits only if every pool it may use has free CPU <= 0 or free RAM <= 0; pipelines of "
        "equal priority get their first container in arrival order; suspensions only by priority, only running non-query "
        "containers at an operator boundary, only while a query pipeline has an assignable operator, at most one per waiting "
        "query job. Non-trivial = run with a round in which >= 2 classes wait and a pool is depleted, or a suspension shorter "
        "than 3 ticks; distinct = sha1 of the case JSON")
ASSUMPTIONS = [
    "FAILED operators are not 'pending' (the scheduler may abandon retries), as the statement is worded",
    "'offered again once its suspension ends' is decided in its bounded form: work conservation from the next round on",
    "waiting query jobs are bounded by query pipelines with an assignable operator (multi-operator mode) / assignable query operators (single-operator mode)",
]
FLOORS = {"had_suspension": 0.05, "two_classes_waiting_depleted": 0.05, "short_suspension": 0.005}


def plan(tier):
    return [{"kind": "hypothesis", "examples": 2500 if tier == "quick" else 30000}]


@st.composite
def case(draw, tier):
    c = draw(sim_case(["priority", "priority", "priority-pool"], tier, max_pipes=14))
    p = c["params"]
    if p["scheduler_algo"] == "priority-pool" and not p["multi_operator_containers"]:
        p["multi_operator_containers"] = True
    if draw(st.booleans()):
        # contention: small pools, multi-operator containers, query bursts
        p["cpus_per_pool"] = draw(st.sampled_from([1, 2, 3, 4]))
        if p["scheduler_algo"] == "priority":
            p["num_pools"] = draw(st.sampled_from([1, 1, 2, 3]))
            p["multi_operator_containers"] = True
        p["ram_gb_per_pool"] = draw(st.sampled_from([30, 8, 12.34, 64, 100, 2.3]))
        for a in c["arrivals"]:
            if draw(st.integers(0, 2)) == 0:
                a[1]["prio"] = 1
    return c


@st.composite
def preempt_case(draw, tier):
    """long multi-operator non-query containers with frequent operator boundaries, then query arrivals on full pools"""
    from verif.model import ticks as T
    tps = draw(st.sampled_from([10, 1, 2, 3, 5, 20, 50]))
    ram = draw(st.sampled_from([30, 8, 12.34, 64, 100, 2.3, 256]))
    nticks = draw(st.sampled_from([60, 40, 100]))
    params = {"scheduler_algo": "priority", "ticks_per_second": tps, "duration": (nticks + 0.5) / tps,
              "num_pools": draw(st.sampled_from([1, 1, 2, 3])), "cpus_per_pool": draw(st.sampled_from([1, 2, 3, 4, 10, 20, 2.5, 1.5, 3.5])),
              "ram_gb_per_pool": ram, "multi_operator_containers": True,
              "allow_memory_overcommit": draw(st.sampled_from([False, False, True])), "random_seed": 0,
              "interactive_prob": 0.3, "query_prob": 0.1, "batch_prob": 0.6}

    # sometimes a segment needs more than the default tenth of a pool: an OOM, a doubled retry, and that bigger container is
    # what later gets preempted and resumed
    retry = draw(st.integers(0, 3)) == 0

    def seg(kmax):
        return {"cpu": (draw(st.integers(0, kmax)) + 0.5) / tps, "law": draw(st.sampled_from(T.LAWS)),
                "mem": draw(st.sampled_from([0.01, 0, 0.05, round(ram * 0.04, 6)] + ([round(ram * 0.15, 6)] if retry else []))),
                "read": (draw(st.integers(0, 1)) + 0.25) * 20.0 / tps}

    arrivals = []
    full = draw(st.booleans())
    if full:
        # exactly enough multi-operator non-query pipelines to occupy every CPU, then query bursts
        params["cpus_per_pool"] = draw(st.sampled_from([2, 1, 3, 4, 5, 7, 12, 20, 30, 25]))
        params["num_pools"] = draw(st.sampled_from([1, 2, 2, 3]))
        per_job = max(1, params["cpus_per_pool"] // 10)
        nbg = -(-params["cpus_per_pool"] // per_job) * params["num_pools"] + draw(st.sampled_from([0, 0, 1, 2]))
        nbg = min(nbg, 24)
    else:
        nbg = draw(st.integers(2, 7))
    for _ in range(nbg):
        n = draw(st.integers(3, 8)) if full else draw(st.integers(2, 6))
        ops = [{"parents": [i - 1] if i else [], "segs": [seg(1 if full else 2) for _ in range(draw(st.sampled_from([1, 1, 2, 3])))]} for i in range(n)]
        arrivals.append([0 if full else draw(st.integers(0, 2)), {"prio": draw(st.sampled_from([3, 2])), "ops": ops}])
    burst = draw(st.integers(1, 8))
    waves = draw(st.integers(0, 2)) == 0
    if waves:
        # history: several separated waves of queries over a longer run, so that the same pipeline can be preempted,
        # resumed and preempted again
        nticks = draw(st.sampled_from([150, 100, 220]))
        params["duration"] = (nticks + 0.5) / tps
        for a in arrivals:
            n_extra = draw(st.integers(3, 8))
            a[1]["ops"] = a[1]["ops"] + [{"parents": [len(a[1]["ops"]) + i - 1], "segs": [seg(2)]} for i in range(n_extra)]
        t = burst
        for _ in range(draw(st.integers(2, 5))):
            for _ in range(draw(st.integers(1, 3))):
                ops = [{"parents": [], "segs": [seg(3)]}]
                arrivals.append([t, {"prio": 1, "ops": ops}])
            t += draw(st.integers(3, 25))
    for _ in range(draw(st.integers(1, 6))):
        n = draw(st.sampled_from([1, 1, 2, 3]))
        ops = [{"parents": [i - 1] if i else [], "segs": [seg(3)]} for i in range(n)]
        arrivals.append([burst if draw(st.integers(0, 3)) else draw(st.integers(1, 20)), {"prio": 1, "ops": ops}])
    arrivals.sort(key=lambda a: a[0])
    return {"params": params, "arrivals": arrivals}


def strategy(tier):
    return st.one_of(case(tier), case(tier), preempt_case(tier))


def run_case(spec):
    out = Outcome()
    rec, params = run_sim(spec)
    c = common_labels(out, spec, rec)
    P = collect(out, {"C12"})
    if rec.exception is not None:
        out.label("run_raised")
    info = {}
    M.mon_priority(rec, P, info, params["scheduler_algo"], params["multi_operator_containers"])
    if info.get("two_classes_waiting_depleted"):
        out.label("two_classes_waiting_depleted")
    if info.get("short_suspension"):
        out.label("short_suspension")
    out.nontrivial = bool(info.get("two_classes_waiting_depleted") or info.get("short_suspension"))
    return out
