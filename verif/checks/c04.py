"""C04 - memory limits hold after every tick and reported usage is the real usage."""
from hypothesis import strategies as st
from ._pool_common import make_run_case, machine_spec

ID = "C04"
RULE = ("Pool-machine histories (see C03) with mixes of fixed-memory and growing-memory operators and allocations "
        "below / equal / above each demand step; after every tick: usage <= allocation per running container, sum of "
        "usage <= capacity, reported pool usage == sum of current usage of running containers (0 for an empty pool), "
        "usage equals the independent model's demand, every failed result justified by own demand > own allocation or "
        "pool demand > capacity; the usage monitor also runs over every tick of generated full simulations under all shipped schedulers. Non-trivial = usage read after a suspension, or a tick with both a kill and a "
        "completion; distinct = sha1 of the case JSON")
ASSUMPTIONS = [
    "tolerance 1e-6 GB on pool totals (incrementally tracked float sums), 1e-9 relative per container",
    "pool demand within 1e-6 GB of capacity: kill or no kill both accepted",
]
FLOORS = {"had_failure": (0.1, "pm"), "usage_read_after_suspension": (0.03, "pm"), "tick_with_success_and_failure": (0.01, "pm"),
          "full_simulation": 100}


def plan(tier):
    n = 4000 if tier == "quick" else 50000
    return [{"kind": "hypothesis", "examples": n},
            {"kind": "hypothesis", "examples": 1000 if tier == "quick" else 15000, "module": "verif.checks.c04_sim", "shard_base": 100}]


def strategy(tier):
    return st.one_of(machine_spec("general", tier), machine_spec("oom", tier), machine_spec("suspend", tier),
                     machine_spec("long", tier))


_pool_run_case = make_run_case({"C04", "C11"}, lambda o: "usage_read_after_suspension" in o.labels
                         or "tick_with_success_and_failure" in o.labels)


def run_case(spec):
    if "steps" not in spec:     # a full-simulation case (second part of the plan)
        from verif.checks import c04_sim
        return c04_sim.run_case(spec)
    return _pool_run_case(spec)
