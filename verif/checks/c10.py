"""C10 - suspension only between operators, lasts RAM/20 s, returns work intact."""
from hypothesis import strategies as st
from ._pool_common import make_run_case, machine_spec

ID = "C10"
RULE = ("Pool-machine histories in which suspend attempts are scheduled at arbitrary ticks of containers' lives "
        "(suspendable, mid-operator, already suspending / suspended, unknown id, wrong pool, twice in one round) at tick "
        "rates where the write-out is 0->1, 1, 2 or many ticks; accepted <=> model says 'running and finished a "
        "non-final operator in the previous tick'; while suspending: listed as suspending for exactly "
        "max(1, floor(ram/20*tps)) ticks, no result, allocation held, then exactly its allocation freed, completed "
        "operators stay completed, the rest pending and assignable again. Non-trivial = accepted suspension whose work "
        "was re-assigned and succeeded, or an episode with an accepted suspension that ends in a rejected attempt; "
        "distinct = sha1 of the case JSON")
ASSUMPTIONS = ["a write-out length within 1e-9 relative of a tick boundary may fall on either side (3 GB at 20 ticks/s)"]
FLOORS = {"container_mixing_two_pipelines": 50, "suspensions_of_one_call_interleave_pools": 5, "had_suspension": 0.15, "suspension_finished": 0.1, "reject_C10": 0.05, "rerun_after_suspension_succeeded": 0.01}


def plan(tier):
    n = 4000 if tier == "quick" else 50000
    return [{"kind": "hypothesis", "examples": n}]


def strategy(tier):
    return st.one_of(machine_spec("suspend", tier), machine_spec("suspend", tier), machine_spec("general", tier),
                     machine_spec("twins", tier), machine_spec("branches", tier))


run_case = make_run_case({"C10"}, lambda o: "rerun_after_suspension_succeeded" in o.labels
                         or ("had_suspension" in o.labels and "reject_C10" in o.labels))
