"""C02 - operator lifecycle follows the documented state machine; completion is final."""
import itertools

from hypothesis import strategies as st

from verif.runner import Outcome, Stats, spec_hash, canon
from verif.gen_sim import sim_case, dag_parents
from verif.drive import monitors as M
from verif.drive import tape_sched
from ._sim_common import run_sim, common_labels, collect

ID = "C02"
RULE = ("(a) exhaustive: on all 11 DAGs of <= 3 operators, every sequence of state-change requests (operator, target) of "
        "length <= 4 from the initial state (18^4 per 3-operator DAG; length 5 in the thorough tier), each replayed on a fresh "
        "pipeline, plus all requests from every reachable state vector; (b) Hypothesis request tapes of 20-200 requests on "
        "DAGs of <= 8 operators biased to legal moves; (c) Hypothesis-generated simulations under every shipped scheduler and "
        "a tape-driven custom scheduler. Oracle: an independent transition table (+ parents completed for RUNNING): a legal "
        "request succeeds and changes exactly that operator and two counters, an illegal one raises and leaves states and "
        "counts identical; state_counts == histogram and is_pipeline_successful <=> all completed at every step; in "
        "simulations every logged change is in the table, states never change outside a request, a completed operator never "
        "changes or is re-assigned, live containers (running + suspending) have disjoint operators. Non-trivial = history "
        "with a refused request after a fail->retry or suspend->resume (a, b) / simulation with a retry or suspension (c); "
        "distinct = the request sequence itself / sha1 of the case JSON")
ASSUMPTIONS = ["'refused with an error' = any Exception subclass raised by the request"]
FLOORS = {"sim": 100, "req_tape": 30, "refused_after_detour": 100}
SCHEDS = ["naive", "priority", "priority", "priority-pool", "overbook", "starter", "verif-tape", "verif-tape"]
STATES = ["pending", "assigned", "running", "suspending", "completed", "failed"]


def plan(tier):
    return [{"kind": "function", "func": "exhaustive_requests"},
            {"kind": "hypothesis", "examples": 3000 if tier == "quick" else 100000}]


@st.composite
def req_tape(draw):
    n = draw(st.integers(1, 8))
    parents = draw(dag_parents(n))
    reqs = draw(st.lists(st.tuples(st.integers(0, 7), st.integers(0, 5), st.integers(0, 9)), min_size=20, max_size=200))
    return {"dag_parents": parents, "requests": [list(r) for r in reqs]}


@st.composite
def case(draw, tier):
    if draw(st.integers(0, 3)) == 0:
        return draw(req_tape())
    from verif.checks.c12 import preempt_case
    c = draw(st.one_of(sim_case(SCHEDS, tier), sim_case(SCHEDS, tier), sim_case(SCHEDS, tier), preempt_case(tier)))
    if c["params"]["scheduler_algo"] == "priority" and "random_seed" in c["params"] and c["params"]["random_seed"] == 0 and draw(st.booleans()):
        c["params"]["scheduler_algo"] = "verif-tape"      # the preemption workload under arbitrary custom decisions
    if c["params"]["scheduler_algo"] == "verif-tape":
        c["tape"] = draw(st.lists(st.integers(0, 2 ** 16), min_size=5, max_size=120))
        if draw(st.integers(0, 3)) == 0:
            # eager custom policy on identical pipelines: suspensions that start and end together, immediate re-assignment
            tps = c["params"]["ticks_per_second"]
            ram_pool = c["params"]["ram_gb_per_pool"]
            c["eager_ram"] = round(ram_pool * draw(st.sampled_from([0.1, 0.2, 0.05])), 6)
            c["params"]["multi_operator_containers"] = True
            c["params"]["cpus_per_pool"] = draw(st.sampled_from([4, 2, 3, 8]))
            n = draw(st.integers(3, 5))
            ops = [{"parents": [i - 1] if i else [], "segs": [{"cpu": (draw(st.integers(0, 1)) + 0.5) / tps, "law": "const", "mem": 0.01, "read": 0.0}]}
                   for i in range(n)]
            c["arrivals"] = [[0, {"prio": 3, "ops": ops}] for _ in range(draw(st.integers(2, 4)))] + c["arrivals"][:2]
            c["arrivals"].sort(key=lambda a: a[0])
    return c


def strategy(tier):
    return case(tier)


# ----------------------------------------------------------------------------- model

def legal(states, parents, i, target):
    cur = states[i]
    if target not in M.TABLE[cur]:
        return False
    if target == "running" and any(states[q] != "completed" for q in parents[i]):
        return False
    return True


def build(parents):
    from eudoxia.workload.pipeline import Pipeline
    from eudoxia.utils import Priority
    p = Pipeline("p", Priority.QUERY)
    ops = []
    for ps in parents:
        ops.append(p.new_operator([ops[j] for j in ps] or None))
    return p, ops


def observe(rs, ops):
    """state vector and per-state counts; the two public views of an operator's state (runtime status and
    Operator.state()) must agree - a disagreement is returned as the string 'views-differ'"""
    a = [rs.operator_states[o].value for o in ops]
    b = [o.state().value for o in ops]
    if a != b:
        return ["views-differ: runtime status %s, Operator.state() %s" % (a, b)], {}
    return a, {k.value: v for k, v in rs.state_counts.items()}


def apply_and_check(p, ops, parents, model, i, target, S):
    """one request against the real pipeline and the model; returns a problem string or None"""
    rs = p.runtime_status()
    before_states, before_counts = observe(rs, ops)
    if before_states != model:
        return f"state vector {before_states} differs from the model {model} before the request"
    ok = legal(model, parents, i, target)
    try:
        ops[i].transition(S[target])
        raised = None
    except Exception as e:
        raised = e
    after_states, after_counts = observe(rs, ops)
    if ok:
        if raised is not None:
            return f"legal request op{i} {model[i]}->{target} refused: {type(raised).__name__}: {raised}"
        exp = list(model)
        exp[i] = target
        if after_states != exp:
            return f"after legal op{i} {model[i]}->{target}: states {after_states}, expected {exp}"
        model[i] = target
    else:
        if raised is None:
            return f"illegal request op{i} {model[i]}->{target} accepted (parents {[model[q] for q in parents[i]]})"
        if after_states != before_states or after_counts != before_counts:
            return f"refused request op{i} {model[i]}->{target} changed states {before_states}->{after_states} or counts {before_counts}->{after_counts}"
    hist = {s: 0 for s in STATES}
    for s in after_states:
        hist[s] += 1
    if after_counts != hist:
        return f"state_counts {after_counts} != histogram {hist}"
    if rs.is_pipeline_successful() != all(s == "completed" for s in after_states):
        return f"is_pipeline_successful={rs.is_pipeline_successful()} with states {after_states}"
    return None


def run_requests(parents, reqs):
    """reqs: list of (i, target). Returns (problem or None, refused_after_detour, n_refused)"""
    from eudoxia.workload.runtime_status import OperatorState
    S = {s.value: s for s in OperatorState}
    p, ops = build(parents)
    model = ["pending"] * len(ops)
    detour = False
    flag = False
    nref = 0
    for i, target in reqs:
        was = model[i]
        ok = legal(model, parents, i, target)
        why = apply_and_check(p, ops, parents, model, i, target, S)
        if why:
            return why, flag, nref
        if ok and ((was == "failed" and target == "assigned") or (was == "suspending" and target == "pending")):
            detour = True
        if not ok:
            nref += 1
            if detour:
                flag = True
    return None, flag, nref


def run_case(spec):
    out = Outcome()
    if "requests" in spec and "dag_parents" in spec:
        parents = spec["dag_parents"]
        n = len(parents)
        # interpret the tape: bias >= 3 -> pick the k-th legal request, else the literal (operator, target)
        from eudoxia.workload.runtime_status import OperatorState
        S = {s.value: s for s in OperatorState}
        p, ops = build(parents)
        model = ["pending"] * n
        detour = flag = False
        out.label("req_tape")
        for a, b, bias in spec["requests"]:
            i, target = a % n, STATES[b % 6]
            if bias >= 3:
                legal_moves = [(j, t) for j in range(n) for t in STATES if legal(model, parents, j, t)]
                if legal_moves:
                    i, target = legal_moves[(a * 6 + b) % len(legal_moves)]
            was = model[i]
            ok = legal(model, parents, i, target)
            why = apply_and_check(p, ops, parents, model, i, target, S)
            out.extra_evals += 1
            if why:
                out.problem("C02:request-history", why)
                return out
            if ok and ((was == "failed" and target == "assigned") or (was == "suspending" and target == "pending")):
                detour = True
            if not ok and detour:
                flag = True
        if flag:
            out.label("refused_after_detour")
        if all(s == "completed" for s in model):
            out.label("all_completed")
        out.nontrivial = flag
        return out
    if "requests" in spec:      # replay of an enumerated sequence {"dag": parents, "requests": [[i, target], ...]}
        why, flag, _ = run_requests(spec["dag"], [(i, t) for i, t in spec["requests"]])
        if why:
            out.problem("C02:request-history", why)
        out.nontrivial = flag
        return out
    tape = spec["params"]["scheduler_algo"] == "verif-tape"
    if tape:
        tape_sched.ensure_registered()
        tape_sched.set_tape(spec["tape"], spec.get("eager_ram"))
    rec, params = run_sim(spec)
    c = common_labels(out, spec, rec)
    out.label("sim")
    P = collect(out, {"C02"})
    info = {}
    M.mon_lifecycle(rec, P, info)
    if info.get("refused_requests"):
        out.label("sim_with_refused_request")
    # completion is final also after the run: every request on an operator of a pipeline the simulation completed is refused
    from eudoxia.workload.runtime_status import OperatorState
    probed = 0
    for pid, p in rec.pipelines.items():
        rs = p.runtime_status()
        if not rs.operator_states or not all(v == OperatorState.COMPLETED for v in rs.operator_states.values()):
            continue
        for o in list(rs.operator_states)[:3]:
            for target in OperatorState:
                before = (dict(rs.operator_states), dict(rs.state_counts))
                try:
                    o.transition(target)
                    raised = False
                except Exception:
                    raised = True
                probed += 1
                if not raised:
                    P("C02:request-on-completed-operator-accepted", f"after the run: {pid} operator {getattr(o, '_vidx', '?')} completed -> {target.value} was not refused")
                if (dict(rs.operator_states), dict(rs.state_counts)) != before or o.state() != OperatorState.COMPLETED:
                    P("C02:completed-operator-changed", f"after the run: request completed -> {target.value} changed the state of {pid}")
        if probed > 40:
            break
    if probed:
        out.label("probed_completed_after_run")
        out.extra_evals += probed
    out.nontrivial = bool(c["retry"] or c["nsus"])
    return out


# ----------------------------------------------------------------------------- (a) exhaustive

def small_dags():
    for n in (1, 2, 3):
        ranges = [range(1 << i) for i in range(n)]
        for masks in itertools.product(*ranges):
            yield [[j for j in range(i) if masks[i] >> j & 1] for i in range(n)]


def exhaustive_requests(tier, seed, shard, nshards):
    st_ = Stats()
    viol = None
    k = 0
    nseq = 0
    for parents in small_dags():
        n = len(parents)
        reqs = [(i, t) for i in range(n) for t in STATES]
        depth = 4
        if tier == "thorough":
            depth = 5
        # all sequences of length == depth (every shorter sequence is a prefix of one of them and is checked on the way)
        for seq in itertools.product(reqs, repeat=depth):
            k += 1
            if k % nshards != shard:
                continue
            nseq += 1
            why, flag, nref = run_requests(parents, seq)
            st_.evaluations += 1
            st_.extra_evals += depth
            if flag:
                spec = {"dag": parents, "requests": [list(r) for r in seq]}
                st_.nontrivial.add(spec_hash(spec))
                st_.labels["refused_after_detour"] += 1
                if len(st_.samples) < 1:
                    st_.samples.append((len(canon(spec)), spec_hash(spec), spec, ["enumerated", "refused_after_detour"]))
            if why and viol is None:
                viol = {"spec": {"dag": parents, "requests": [list(r) for r in seq]},
                        "problem": {"key": "C02:request-history", "msg": why, "known": None}}
        # every request from every reachable state vector (breadth-first over the model's state space)
        if shard == 0:
            start = tuple(["pending"] * n)
            seen = {start: ()}
            frontier = [start]
            while frontier:
                nxt = []
                for sv in frontier:
                    for (i, t) in reqs:
                        path = seen[sv] + ((i, t),)
                        why, _, _ = run_requests(parents, path)
                        st_.evaluations += 1
                        if why and viol is None:
                            viol = {"spec": {"dag": parents, "requests": [list(r) for r in path]},
                                    "problem": {"key": "C02:request-history", "msg": why, "known": None}}
                        if legal(list(sv), parents, i, t):
                            new = list(sv)
                            new[i] = t
                            new = tuple(new)
                            if new not in seen:
                                seen[new] = path
                                nxt.append(new)
                frontier = nxt
            st_.labels["reachable_state_vectors"] += len(seen)
    res = {"shard": shard, "stats": st_.to_json(), "violation": viol, "harness": None}
    res["stats"]["exhaustive"] = {"part": "request-sequences", "cases": nseq,
                                  "what": f"all request sequences of length {4 if tier != 'thorough' else 5} on the 11 DAGs of <= 3 operators, replayed on fresh pipelines; plus every request from every reachable state vector"}
    return res
