"""C14 - trace files round-trip; malformed files are refused."""
import csv
import io
import math

from hypothesis import strategies as st

from verif.runner import Outcome
from verif.gen_sim import dag_parents, classify_dag
from verif.model import ticks as T

ID = "C14"
RULE = ("Hypothesis-generated workloads of random DAG pipelines (multi-parent, several roots, all priorities, seven laws, memory "
        "unset / 0 / 0.0 / value, numbers as ints, decimals, 1e-300..1e300, zero; several pipelines per arrival time) delivered by a "
        "schedule workload -> WorkloadTraceGenerator + CSVWorkloadWriter -> CSVWorkloadReader (leg 1: same pipelines field by "
        "field, floats equal exactly, None vs 0 distinguished) -> trace workload -> writer again (leg 2: rows equal after numeric "
        "parsing, arrival column excluded); hand-formatted well-formed files (ints, exponents, padded parents) must load to exactly "
        "the reference pipelines; each listed format rule broken at a generated row must make batch_by_arrival() raise. "
        "Non-trivial = file with a multi-parent operator and an explicit memory_gb = 0, or a malformed file; distinct = sha1 of "
        "the case JSON")
ASSUMPTIONS = [
    "inputs the statement does not classify are never generated: duplicate operator ids, a parent listed twice, a pipeline id that reappears "
    "later, NaN/inf/negative numbers, whitespace-only numeric cells, missing or extra columns, forward references to later operators",
]
FLOORS = {"multi_parent_and_explicit_zero": (0.05, "hyp"), "malformed": (0.2, "hyp"), "handwritten": (0.05, "hyp")}
PRIOS = ["QUERY", "INTERACTIVE", "BATCH_PIPELINE"]
FIELDS = ['pipeline_id', 'arrival_seconds', 'priority', 'operator_id', 'parents', 'baseline_cpu_seconds', 'cpu_scaling',
          'memory_gb', 'storage_read_gb']
RULES = ["first_no_priority", "first_no_arrival", "later_priority", "later_arrival", "unknown_priority", "unknown_law",
         "undefined_parent", "forward_parent"]


def plan(tier):
    return [{"kind": "hypothesis", "examples": 3000 if tier == "quick" else 100000},
            {"kind": "function", "func": "fuzz", "shards": 2 if tier == "quick" else 8}]


number = st.one_of(st.integers(0, 100), st.sampled_from([0, 0.0, 1, 2.5, 15, 37.5, 55, 0.001, 1e-300, 1e300, 5e-324, 123456.789]),
                   st.floats(0, 1e6, allow_nan=False), st.floats(0, 1, allow_nan=False))
memory = st.one_of(st.none(), st.none(), st.sampled_from([0, 0.0]), number)


@st.composite
def workload(draw):
    tps = draw(st.sampled_from([10, 1, 3, 7, 100, 1000, 100000]))
    n = draw(st.integers(1, 8))
    ticks = sorted(draw(st.lists(st.integers(0, 40), min_size=n, max_size=n)))
    pipes = []
    for t in ticks:
        nops = draw(st.sampled_from([1, 2, 3, 4, 6]))
        parents = draw(dag_parents(nops))
        ops = [{"parents": parents[i], "cpu": draw(number), "law": draw(st.sampled_from(T.LAWS)), "mem": draw(memory),
                "read": draw(number)} for i in range(nops)]
        pipes.append({"tick": t, "prio": draw(st.sampled_from(PRIOS)), "ops": ops})
    return {"tps": tps, "pipelines": pipes}


@st.composite
def case(draw, tier):
    c = draw(workload())
    kind = draw(st.sampled_from(["roundtrip", "roundtrip", "malformed", "malformed", "handwritten"]))
    c["kind"] = kind
    if kind == "malformed":
        c["mutation"] = [draw(st.sampled_from(RULES)), draw(st.integers(0, 50)), draw(st.integers(0, 50)),
                         draw(st.sampled_from(["0", "0.0", "1.5", "-0.0", "3", "1e-9"]))]
    if kind == "handwritten":
        c["fmt"] = draw(st.lists(st.integers(0, 5), min_size=8, max_size=8))
    if kind == "roundtrip" and draw(st.integers(0, 4)) == 0:
        c["numpy_values"] = True
    return c


def strategy(tier):
    return case(tier)


# ----------------------------------------------------------------------------- helpers

def build(spec):
    from eudoxia.workload.pipeline import Segment, Pipeline
    from eudoxia.utils import Priority
    by_tick = {}
    for k, ps in enumerate(spec["pipelines"]):
        p = Pipeline(f"orig{k}", Priority[ps["prio"]])
        ops = []
        shared = []          # one list object reused for every operator (a caller may do that); it is emptied afterwards
        for o in ps["ops"]:
            if k % 2:
                shared[:] = [ops[j] for j in o["parents"]]
                op = p.new_operator(shared if o["parents"] else None)
            else:
                op = p.new_operator([ops[j] for j in o["parents"]] or None)
            if spec.get("numpy_values") and k % 3 == 0:
                # the same numbers handed over as numpy scalars (what arithmetic on numpy arrays or a numpy RNG yields)
                import numpy as np
                op.add_segment(Segment(baseline_cpu_seconds=np.float64(o["cpu"]), cpu_scaling=o["law"],
                                       memory_gb=None if o["mem"] is None else np.float64(o["mem"]), storage_read_gb=np.float64(o["read"])))
            else:
                op.add_segment(Segment(baseline_cpu_seconds=o["cpu"], cpu_scaling=o["law"], memory_gb=o["mem"], storage_read_gb=o["read"]))
            ops.append(op)
        shared.clear()
        by_tick.setdefault(ps["tick"], []).append(p)
    return by_tick


def write_trace(by_tick, tps, nticks):
    from eudoxia.workload.csv_io import CSVWorkloadWriter, WorkloadTraceGenerator
    from verif.drive.observed_run import ScheduleWorkload
    buf = io.StringIO()
    w = CSVWorkloadWriter(buf)
    for row in WorkloadTraceGenerator(workload=ScheduleWorkload(by_tick), ticks_per_second=tps, duration_secs=nticks / tps + 0.5 / tps).generate_rows():
        w.write_row(row)
    return buf.getvalue()


def read_all(text):
    from eudoxia.workload.csv_io import CSVWorkloadReader
    out = []
    for batch in CSVWorkloadReader(io.StringIO(text)).batch_by_arrival():
        for pa in batch:
            out.append(pa)
    return out


def law_name(seg):
    from eudoxia.workload.pipeline import Segment
    for name, f in Segment.SCALING_FUNCS.items():
        if f == seg.scaling_func:
            return name
    return None


def same_number(a, b):
    if a is None or b is None:
        return a is None and b is None
    return float(a) == float(b)


def compare_pipeline(ref, got, P, where):
    """ref: spec dict of one pipeline; got: real Pipeline read back"""
    ops = list(got.values.node_lookup.values())
    if got.priority.name != ref["prio"]:
        P("C14:priority", f"{where}: priority {got.priority.name}, written {ref['prio']}")
    if len(ops) != len(ref["ops"]):
        P("C14:operator-count", f"{where}: {len(ops)} operators, written {len(ref['ops'])}")
        return
    for i, (o, r) in enumerate(zip(ops, ref["ops"])):
        par = sorted(ops.index(q) for q in o.parents)
        if par != sorted(r["parents"]):
            P("C14:parents", f"{where} operator {i}: parents {par}, written {sorted(r['parents'])}")
        segs = o.get_segments()
        if len(segs) != 1:
            P("C14:segments", f"{where} operator {i}: {len(segs)} segments")
            continue
        s = segs[0]
        if not same_number(s.baseline_cpu_seconds, r["cpu"]):
            P("C14:cpu-seconds", f"{where} operator {i}: {s.baseline_cpu_seconds!r}, written {r['cpu']!r}")
        if law_name(s) != r["law"]:
            P("C14:scaling-law", f"{where} operator {i}: {law_name(s)}, written {r['law']}")
        if not same_number(s.memory_gb, r["mem"]):
            P("C14:memory", f"{where} operator {i}: memory_gb {s.memory_gb!r}, written {r['mem']!r}")
        if not same_number(s.storage_read_gb, r["read"]):
            P("C14:read-size", f"{where} operator {i}: {s.storage_read_gb!r}, written {r['read']!r}")


def parse_rows(text):
    return list(csv.DictReader(io.StringIO(text)))


def rows_equal(a, b):
    """field-wise after numeric parsing, arrival column excluded"""
    for f in FIELDS:
        if f == "arrival_seconds":
            continue
        x, y = a.get(f, ""), b.get(f, "")
        if f in ("baseline_cpu_seconds", "memory_gb", "storage_read_gb"):
            if (x == "") != (y == ""):
                return f
            if x != "" and float(x) != float(y):
                return f
        elif x != y:
            return f
    return None


def fmt_num(v, how):
    if v is None:
        return ""
    if how == 0:
        return repr(v)
    if how == 1 and float(v) == int(float(v)) and abs(float(v)) < 1e15:
        return str(int(float(v)))
    if how == 2:
        return "%.17e" % float(v)
    if how == 3:
        return repr(float(v))
    return repr(v)


def fuzz(tier, seed, shard, nshards):
    """coverage-guided campaign (atheris / libFuzzer) over the CSV grammar with the C14 oracle inside the target"""
    from verif.fuzz.driver import campaign
    return campaign("C14", tier, seed, shard, nshards)


def run_case(spec):
    out = Outcome()
    if "fuzz_bytes_hex" in spec:
        from verif.fuzz import driver
        return driver.replay(spec, out)
    tps = spec["tps"]
    pipes = spec["pipelines"]
    nticks = max(p["tick"] for p in pipes) + 1

    def P(key, msg):
        if len(out.problems) < 5:
            out.problem(key, msg)

    multi_parent = any(len(o["parents"]) > 1 for p in pipes for o in p["ops"])
    explicit_zero = any(o["mem"] is not None and float(o["mem"]) == 0 for p in pipes for o in p["ops"])
    if multi_parent:
        out.label("multi_parent")
    if explicit_zero:
        out.label("explicit_zero_memory")
    if multi_parent and explicit_zero:
        out.label("multi_parent_and_explicit_zero")
    if len({p["tick"] for p in pipes}) < len(pipes):
        out.label("two_pipelines_one_arrival")
    out.label(spec["kind"])
    if spec.get("numpy_values"):
        out.label("numpy_scalar_values")
    out.label("hyp")

    try:
        text = write_trace(build(spec), tps, nticks)
    except Exception as e:
        P("C14:write-raised", f"{type(e).__name__}: {e}")
        return out

    if spec["kind"] == "handwritten":
        # the same content formatted by hand: ints without a point, exponents, spaces around parent ids
        fmt = spec["fmt"]
        buf = io.StringIO()
        w = csv.DictWriter(buf, fieldnames=FIELDS)
        w.writeheader()
        for k, ps in enumerate(pipes):
            for i, o in enumerate(ps["ops"]):
                wf = fmt[5] >= 3     # the writer's own naming (p<n>, op<n>) and separator, parents in a declared, non-sorted order
                plist = list(o["parents"])
                if wf and len(plist) > 1:
                    plist = plist[fmt[6] % len(plist):] + plist[:fmt[6] % len(plist)]
                w.writerow({"pipeline_id": f"p{k + 1}" if wf else f"pipe-{k}", "arrival_seconds": fmt_num(ps["tick"] * (1.0 / tps), fmt[0]) if i == 0 else "",
                            "priority": ps["prio"] if i == 0 else "", "operator_id": f"op{i + 1}" if wf else f"o{i}",
                            "parents": (";" if (fmt[1] < 3 or wf) else " ; ").join((f"op{j + 1}" if wf else f"o{j}") for j in plist),
                            "baseline_cpu_seconds": fmt_num(o["cpu"], fmt[2]), "cpu_scaling": o["law"],
                            "memory_gb": fmt_num(o["mem"], fmt[3]), "storage_read_gb": fmt_num(o["read"], fmt[4])})
        text = buf.getvalue()

    if spec["kind"] == "malformed":
        rule, pi, oi, val = spec["mutation"]
        rows = parse_rows(text)
        firsts = [k for k, r in enumerate(rows) if r["priority"]]
        laters = [k for k, r in enumerate(rows) if not r["priority"]]
        target = None
        if rule == "first_no_priority":
            target = firsts[pi % len(firsts)]
            rows[target]["priority"] = ""
        elif rule == "first_no_arrival":
            target = firsts[pi % len(firsts)]
            rows[target]["arrival_seconds"] = ""
        elif rule == "later_priority" and laters:
            target = laters[pi % len(laters)]
            rows[target]["priority"] = PRIOS[oi % 3]
        elif rule == "later_arrival" and laters:
            target = laters[pi % len(laters)]
            rows[target]["arrival_seconds"] = val
        elif rule == "unknown_priority":
            target = firsts[pi % len(firsts)]
            rows[target]["priority"] = ["URGENT", "query", "Batch", "BATCH", "mro", "name", "__members__", "__name__", "value", "1"][oi % 10]
        elif rule == "unknown_law":
            target = (pi * 7 + oi) % len(rows)
            rows[target]["cpu_scaling"] = ["cubic", "CONST", "linear", "linear5"][oi % 4]
        elif rule == "undefined_parent":
            target = (pi * 7 + oi) % len(rows)
            extra = ["op999", "nope", "o1x"][oi % 3]
            rows[target]["parents"] = extra if not rows[target]["parents"] or oi % 2 else rows[target]["parents"] + ";" + extra
        elif rule == "forward_parent":
            # a parent that is defined only by a later row of the same pipeline (or the row itself): not yet defined where it
            # is used.  Refusing the file is fine, and so is loading it with that edge; loading it WITHOUT the edge is not.
            cands = [k for k in range(len(rows)) if k + 1 < len(rows) and rows[k + 1]["pipeline_id"] == rows[k]["pipeline_id"]]
            if cands:
                target = cands[pi % len(cands)]
                later = rows[target + 1]["operator_id"] if oi % 3 else rows[target]["operator_id"]
                n_before = len([x for x in rows[target]["parents"].split(";") if x.strip()])
                rows[target]["parents"] = (rows[target]["parents"] + ";" + later) if rows[target]["parents"].strip() else later
                buf = io.StringIO()
                w = csv.DictWriter(buf, fieldnames=FIELDS)
                w.writeheader()
                w.writerows(rows)
                out.label("malformed")
                out.label("rule_" + rule)
                out.nontrivial = True
                try:
                    got = read_all(buf.getvalue())
                except Exception:
                    return out
                pid = rows[target]["pipeline_id"]
                pidx = [r["pipeline_id"] for k, r in enumerate(rows) if r["priority"]].index(pid) if pid in [r["pipeline_id"] for r in rows if r["priority"]] else None
                oidx = len([k for k in range(target) if rows[k]["pipeline_id"] == pid])
                if pidx is not None and pidx < len(got):
                    ops_ = list(got[pidx].pipeline.runtime_status().operator_states.keys())
                    byrow = [o for o in got[pidx].pipeline.values.node_lookup.values()]
                    nparents = sorted(len(o.parents) for o in byrow)
                    want = sorted([len([x for x in r["parents"].split(";") if x.strip()]) for r in rows if r["pipeline_id"] == pid])
                    if nparents != want:
                        P("C14:malformed-file-loaded", f"row {target} of {pid} names the not yet defined operator {later!r} as a parent; the file was loaded, "
                          f"but the operators have {nparents} parents instead of the {want} written in the file (an edge was dropped)")
                return out
        if target is None:
            out.skipped = "rule_not_applicable"
            return out
        buf = io.StringIO()
        w = csv.DictWriter(buf, fieldnames=FIELDS)
        w.writeheader()
        w.writerows(rows)
        out.label("malformed")
        out.label("rule_" + rule)
        try:
            got = read_all(buf.getvalue())
        except Exception:
            out.nontrivial = True
            # the other way a trace file is loaded (`run -w`): reader -> trace workload, ticked past the last arrival
            from eudoxia.workload.csv_io import CSVWorkloadReader
            try:
                wl = CSVWorkloadReader(io.StringIO(buf.getvalue())).get_workload(tps)
                n_loaded = 0
                for t in range(nticks + 3):
                    n_loaded += len(wl.run_one_tick())
            except Exception:
                return out
            P("C14:malformed-file-loaded", f"rule {rule} broken at data row {target} ({rows[target]}): the reader refuses the file, but as a trace workload it "
              f"loads and delivers {n_loaded} pipelines in {nticks + 3} ticks without any error")
            return out
        P("C14:malformed-file-loaded", f"rule {rule} broken at data row {target} ({rows[target]}) but the file loaded {len(got)} pipelines")
        out.nontrivial = True
        return out

    # leg 1 / handwritten: read back and compare with what was written
    try:
        got = read_all(text)
    except Exception as e:
        P("C14:wellformed-file-refused", f"{type(e).__name__}: {e}")
        return out
    if len(got) != len(pipes):
        P("C14:pipeline-count", f"read {len(got)} pipelines, wrote {len(pipes)}")
        return out
    for k, (pa, ref) in enumerate(zip(got, pipes)):
        want_arrival = ref["tick"] * (1.0 / tps)
        if pa.arrival_seconds != want_arrival:
            P("C14:arrival", f"pipeline {k}: arrival {pa.arrival_seconds!r}, written {want_arrival!r}")
        compare_pipeline(ref, pa.pipeline, P, f"pipeline {k}")
    if spec["kind"] == "handwritten" and spec["fmt"][5] >= 3 and not out.problems:
        # a file in the writer's format, read and written again: every row reproduced apart from the arrival column
        from eudoxia.workload.csv_io import CSVWorkloadReader
        out.label("handwritten_writer_format")
        try:
            wl = CSVWorkloadReader(io.StringIO(text)).get_workload(tps)
            by_tick2 = {}
            for t in range(nticks + 2):
                ps_ = wl.run_one_tick()
                if ps_:
                    by_tick2[t] = ps_
            text2 = write_trace(by_tick2, tps, nticks + 2)
        except Exception as e:
            P("C14:second-leg-raised", f"{type(e).__name__}: {e}")
            return out
        r1, r2 = parse_rows(text), parse_rows(text2)
        if len(r1) != len(r2):
            P("C14:second-leg-rows", f"{len(r1)} rows read, {len(r2)} written again")
        else:
            for k, (a, b) in enumerate(zip(r1, r2)):
                f = rows_equal(a, b)
                if f:
                    P("C14:second-leg-rows", f"row {k} field {f}: {a.get(f)!r} became {b.get(f)!r}")
                    break
    if spec["kind"] == "roundtrip" and not out.problems:
        # leg 2: reader -> trace workload -> writer again
        from eudoxia.workload.csv_io import CSVWorkloadReader
        try:
            wl = CSVWorkloadReader(io.StringIO(text)).get_workload(tps)
            by_tick2 = {}
            for t in range(nticks + 2):
                ps = wl.run_one_tick()
                if ps:
                    by_tick2[t] = ps
            text2 = write_trace(by_tick2, tps, nticks + 2)
        except Exception as e:
            P("C14:second-leg-raised", f"{type(e).__name__}: {e}")
            return out
        r1, r2 = parse_rows(text), parse_rows(text2)
        if len(r1) != len(r2):
            P("C14:second-leg-rows", f"{len(r1)} rows written first, {len(r2)} after read + write")
        else:
            for k, (a, b) in enumerate(zip(r1, r2)):
                f = rows_equal(a, b)
                if f:
                    P("C14:second-leg-rows", f"row {k} field {f}: {a.get(f)!r} became {b.get(f)!r}")
                    break
    out.nontrivial = multi_parent and explicit_zero
    return out
