"""C09 - every accepted assignment becomes exactly one container with exactly one outcome."""
from hypothesis import strategies as st
from ._pool_common import make_run_case, machine_spec

ID = "C09"
RULE = ("Pool-machine histories over 1-4 (sometimes 258 / 300) pools incl. commands with pool numbers -1 / num_pools / larger, "
        "another Executor created mid-episode, one empty call after a refused round (no container may appear, success still "
        "means all operators completed), a tenth of the episodes with the package's DEBUG logging on; per container: "
        "created once per accepted assignment, exactly one result (success xor failure) in the tick it ends, none for a "
        "finished suspension, never again; success <=> all operators completed; failure => error set and states "
        "completed* failed+; accepted == successes + failures + suspended + live every tick; unknown pool => error. "
        "Non-trivial = episode with a success, a failure and a finished suspension, or a tick with both a success and a "
        "failure; distinct = sha1 of the case JSON")
ASSUMPTIONS = ["container identifiers are learnt from the implementation (matched through the operators a container holds); nothing is assumed about their format"]
FLOORS = {"call_after_refusal": 0.05, "other_executor_created_while_containers_live": 0.02, "had_failure": 0.1, "had_success": 0.3, "reject_C09": 0.005, "multi_pool": 0.3}


def plan(tier):
    n = 4000 if tier == "quick" else 50000
    return [{"kind": "hypothesis", "examples": n}]


def strategy(tier):
    return st.one_of(machine_spec("general", tier), machine_spec("multi_pool", tier), machine_spec("oom", tier),
                     machine_spec("suspend", tier), machine_spec("twins", tier), machine_spec("branches", tier))


run_case = make_run_case({"C09"}, lambda o: {"had_failure", "had_success", "suspension_finished"} <= set(o.labels)
                         or "tick_with_success_and_failure" in o.labels)
