"""C08 - valid configurations run to the end; shipped schedulers decide admissibly."""
from hypothesis import strategies as st

from verif.runner import Outcome
from verif.gen_sim import sim_case
from verif.drive import monitors as M
from ._sim_common import run_sim, common_labels, collect

ID = "C08"
KNOWN_KEYS = ["priority-pool-single-op"]
RULE = ("Hypothesis-generated whole simulations through the real run_simulator: schedulers naive / priority / "
        "priority-pool (2 pools) / overbook (overcommit) / the starter written by `eudoxia init -s`, tick rates 1..100000, "
        "durations from < 1 tick to ~120 ticks (quick), 1-4 pools of 1-64 CPUs and 0.25-500 GB, probability triples from "
        "partitions of 10, both container modes, DAG pipelines with segments that round to zero ticks and memory from 0 to "
        "1.5x the pool, arrivals at any tick. Oracle: no exception and numeric statistics; independently every recorded round "
        "is admissible (no pool oversold, every assigned operator assignable and once, dependency order inside/outside the "
        "container, only suspendable running containers suspended, pool ids exist, one operator per container in single-op "
        "mode). Non-trivial = run reaching a retry or suspension, or in a corner class (duration < 1 tick, tps 1 or 100000, "
        "1 CPU, sub-GB RAM, float-inexact probability triple, zero-tick operator); distinct = sha1 of the case JSON")
ASSUMPTIONS = [
    "valid configuration = positive pool sizes, tps >= 1, duration >= 0, probabilities summing to one as decimals, "
    "priority-pool on exactly 2 pools, overbook with overcommit enabled",
    "known finding priority-pool-single-op is recognised by its exact signature only",
]
FLOORS = {"sched_naive": 0.05, "sched_priority": 0.05, "sched_priority-pool": 0.04, "sched_overbook": 0.05,
          "sched_starter": 0.05, "had_retry": 0.03, "had_suspension": 0.005, "zero_tick_operator": 0.1}
SCHEDS = ["naive", "priority", "priority", "priority-pool", "overbook", "starter"]


def plan(tier):
    return [{"kind": "hypothesis", "examples": 2500 if tier == "quick" else 30000}]


def strategy(tier):
    from verif.checks.c06 import gen_case
    # custom DAG schedules (most cases) and generator / generator->CSV->trace workloads
    from verif.checks.c12 import preempt_case
    return st.one_of(sim_case(SCHEDS, tier), sim_case(SCHEDS, tier), sim_case(SCHEDS, tier), sim_case(SCHEDS, tier), gen_case(tier),
                     preempt_case(tier))


def zero_tick_ops(spec):
    from verif.model import ticks as T
    tps = spec["params"]["ticks_per_second"]
    for _, ps in spec.get("arrivals", []):
        for o in ps["ops"]:
            if all(min(T.io_ticks(sg["read"], tps)) == 0 and sg["cpu"] * tps < 1 for sg in o["segs"]):
                return True
    return False


def run_case(spec):
    out = Outcome()
    rec, params = run_sim(spec)
    c = common_labels(out, spec, rec)
    p = spec["params"]
    P = collect(out, {"C08"})
    multi = p["multi_operator_containers"]
    d8 = (p["scheduler_algo"] == "priority-pool" and not multi
          and (any(len(ps["ops"]) >= 2 for _, ps in spec.get("arrivals", [])) or spec.get("workload") in ("generator", "trace")))
    if rec.exception is not None:
        e = rec.exception
        known = None
        if d8 and isinstance(e, AssertionError) and "exactly 1 operator" in str(e):
            known = "priority-pool-single-op"
        P("C08:run-raised", f"tick {rec.exception_tick}: {type(e).__name__}: {e} (scheduler {p['scheduler_algo']})", known)
    else:
        s = rec.stats
        try:
            nums = [s.pipelines_created, s.containers_completed, s.throughput, s.p99_latency, s.assignments,
                    s.suspensions, s.failures]
            for ps in (s.pipelines_all, s.pipelines_query, s.pipelines_interactive, s.pipelines_batch):
                nums += [ps.arrival_count, ps.completion_count, ps.mean_latency_seconds, ps.p99_latency_seconds]
            for v in nums:
                float(v)
        except Exception as e:
            P("C08:stats-not-numeric", f"{type(e).__name__}: {e}")
        want = int(p["duration"] * p["ticks_per_second"])
        if len(rec.ticks) != want:
            P("C08:wrong-number-of-ticks", f"ran {len(rec.ticks)} ticks, duration*tps = {want}")
    M.mon_admissible(rec, P, {}, p["allow_memory_overcommit"], multi,
                     single_op_known="priority-pool-single-op" if d8 else None)
    z = zero_tick_ops(spec)
    if z:
        out.label("zero_tick_operator")
    tps = p["ticks_per_second"]
    triple = p["interactive_prob"] + p["query_prob"] + p["batch_prob"]
    corner = (len(rec.ticks) == 0 or tps in (1, 100000) or p["cpus_per_pool"] == 1 or p["ram_gb_per_pool"] < 1
              or triple != 1 or z)
    if triple != 1:
        out.label("float_inexact_triple")
    if corner:
        out.label("corner")
    out.label("workload_" + spec.get("workload", "schedule"))
    out.nontrivial = bool(c["retry"] or c["nsus"] or corner) and bool(rec.arrival_order)
    return out
