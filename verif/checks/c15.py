"""C15 - the workload generator emits well-formed pipelines that follow its parameters."""
import math

from hypothesis import strategies as st

from verif.runner import Outcome

ID = "C15"
RULE = ("Hypothesis-generated (seed, parameter set) pairs for WorkloadGenerator: probability triples from partitions of 10 incl. zeros "
        "and ones, num_pipelines 1-12, num_operators 1-20, waiting_seconds_mean from below one tick to minutes (incl. fractional "
        "seconds), cpu_io_ratio in [0,1], tick rates 1..100000. Deterministic clauses on every arrival event: exactly num_pipelines "
        "pipelines, ids unique over the run (also while a second generator, built after some events of the first, is ticked alongside), QUERY => one operator with the query prototype, otherwise a chain of >= 1 single-segment "
        "operators each a documented prototype and the first the I/O-heaviest, probability 0 never / 1 always. Statistical clauses "
        "with fixed sample sizes and >= 6 sigma margins: class frequencies (>= 2000 pipelines), mean operator count within "
        "num_operators +- (1 + 6 sigma), mean gap within 8 % + 2 ticks of waiting_seconds_mean*tps when that is >= 50 ticks "
        "(>= 1000 gaps), and with the same seed the share of CPU-heavy prototypes (baseline >= 20 s) among later operators at "
        "cpu_io_ratio = 1 exceeds the share at 0 by >= 0.15 (>= 500 later operators each). Non-trivial = parameter set with all "
        "three classes and num_operators >= 3; distinct = sha1 of the case JSON")
ASSUMPTIONS = [
    "prototype table transcribed from the pinned commit (the README names the categories, the values are in code)",
    "statistical clauses can in principle fail by chance with probability < 1e-8 per case",
]
FLOORS = {"all_three_classes_ops_ge3": 0.1, "mode_gap": 0.04, "mode_shift": 0.04, "mode_freq": 0.04, "second_generator_built_midstream": 5}
PROTOS = {(1, "const", 55), (2, "sqrt", 55), (5, "linear3", 45), (15, "linear3", 37.5), (20, "linear7", 30), (40, "linear7", 20),
          (80, "squared", 10)}
QUERY_PROTO = (15, "linear3", 35)
FIRST_PROTO = (1, "const", 55)


def plan(tier):
    return [{"kind": "hypothesis", "examples": 400 if tier == "quick" else 6000}]


@st.composite
def case(draw, tier):
    a = draw(st.integers(0, 10))
    b = draw(st.integers(0, 10 - a))
    tps = draw(st.sampled_from([10, 100, 1, 1000, 3, 7, 100000, 60, 48000, 91000, 700]))
    mode = draw(st.sampled_from(["structure", "freq", "ops", "gap", "shift", "structure", "freq", "ops", "gap", "shift", "rare"]))
    params = {"ticks_per_second": tps, "random_seed": draw(st.integers(0, 2 ** 31 - 1)),
              "waiting_seconds_mean": draw(st.sampled_from([1.0, 0.5, 2.5, 10.0, 0.01, 60.0, 7.25, 1.5])),
              "num_pipelines": draw(st.sampled_from([4, 1, 2, 3, 7, 12])), "num_operators": draw(st.sampled_from([5, 1, 2, 3, 8, 20])),
              "num_segs": 1, "cpu_io_ratio": draw(st.sampled_from([0.5, 0.0, 1.0, 0.25, 0.75, 0.9])),
              "interactive_prob": a / 10, "query_prob": b / 10, "batch_prob": (10 - a - b) / 10}
    if mode == "rare":
        # tens of thousands of operator-count draws with a wide spread: the tails of the draw (0, negative) are reached
        params["num_operators"] = draw(st.sampled_from([40, 100]))
        params["num_pipelines"] = 12
        params["waiting_seconds_mean"] = 1 / tps
        params["query_prob"], params["interactive_prob"], params["batch_prob"] = 0.0, 0.5, 0.5
    if mode == "gap":
        # a mean of 50 .. 1500 ticks, incl. fractional seconds
        w, t = draw(st.sampled_from([(0.5, 100), (1.5, 100), (2.5, 40), (7.25, 200), (10.0, 10), (60.0, 5), (2.5, 100), (1.5, 40),
                                     (0.5, 1000), (7.25, 40), (60.0, 10), (0.75, 100), (0.01, 48000), (0.01, 91000), (0.005, 96000),
                                     (0.5, 700), (2.5, 60), (0.01, 60000)]))
        params["waiting_seconds_mean"], params["ticks_per_second"] = w, t
        params["num_pipelines"] = 1
    elif mode == "ops" and draw(st.booleans()):
        # large arrival bursts of short pipelines
        params["num_pipelines"] = draw(st.sampled_from([40, 100, 25]))
        params["num_operators"] = draw(st.sampled_from([4, 5, 3, 8]))
        params["waiting_seconds_mean"] = 5 / tps
    elif mode in ("freq", "ops"):
        # many events are needed: keep the mean gap short (in ticks)
        params["waiting_seconds_mean"] = draw(st.sampled_from([1, 0.3, 5, 20, 100])) / tps
    elif params["waiting_seconds_mean"] * tps > 5000:
        params["waiting_seconds_mean"] = 5000 / tps
    if mode == "shift":
        params["query_prob"], params["interactive_prob"], params["batch_prob"] = 0.1, 0.3, 0.6
        params["num_operators"] = draw(st.sampled_from([5, 3, 8]))
        params["waiting_seconds_mean"] = 1.0
        params["ticks_per_second"] = 10
    case_ = {"params": params, "mode": mode}
    if mode in ("structure", "rare") and draw(st.integers(0, 2)) == 0:
        # another generator (other seed, other burst size) is built in the same process after some events of this one and
        # ticked along with it from then on: the ids of this one must stay fresh all the same
        case_["companion"] = {"after": draw(st.integers(1, 6)), "random_seed": draw(st.integers(0, 1000)),
                              "num_pipelines": draw(st.sampled_from([1, 3, 12]))}
    if mode == "rare":
        case_["events"] = 150 if tier == "quick" else 600
    return case_


def strategy(tier):
    return case(tier)


def law_name(seg):
    from eudoxia.workload.pipeline import Segment
    for name, f in Segment.SCALING_FUNCS.items():
        if f == seg.scaling_func:
            return name
    return None


def proto_of(seg):
    return (seg.baseline_cpu_seconds, law_name(seg), seg.storage_read_gb)


def make_gen(params):
    from eudoxia.simulator import parse_args_with_defaults
    from eudoxia.workload import WorkloadGenerator
    return WorkloadGenerator(**parse_args_with_defaults(dict(params)))


def run_events(params, want_events, max_ticks, P=None, structure=True, companion=None):
    """returns (events [(tick, pipelines)], ticks run)"""
    gen = make_gen(params)
    events = []
    ids = set()
    t = 0
    other = None
    while len(events) < want_events and t < max_ticks:
        if companion is not None and other is None and len(events) >= companion["after"]:
            other = make_gen({**params, "random_seed": companion["random_seed"], "num_pipelines": companion["num_pipelines"]})
        if other is not None:
            other.run_one_tick()
        ps = gen.run_one_tick()
        if ps:
            events.append((t, ps))
            if structure and P is not None:
                check_event(params, t, ps, ids, P)
        t += 1
    return events, t


def check_event(params, t, ps, ids, P):
    from eudoxia.utils import Priority
    if len(ps) != params["num_pipelines"]:
        P("C15:event-size", f"tick {t}: {len(ps)} pipelines, num_pipelines = {params['num_pipelines']}")
    prob = {Priority.QUERY: params["query_prob"], Priority.INTERACTIVE: params["interactive_prob"], Priority.BATCH_PIPELINE: params["batch_prob"]}
    for p in ps:
        if p.pipeline_id in ids:
            P("C15:id-reused", f"tick {t}: pipeline id {p.pipeline_id} seen before")
        ids.add(p.pipeline_id)
        if prob[p.priority] == 0:
            P("C15:zero-probability-class", f"tick {t}: {p.pipeline_id} has priority {p.priority.name} whose probability is 0")
        ops = list(p.values.node_lookup.values())
        if p.priority == Priority.QUERY:
            if len(ops) != 1:
                P("C15:query-shape", f"tick {t}: query pipeline {p.pipeline_id} has {len(ops)} operators")
                continue
        if len(ops) < 1:
            P("C15:empty-pipeline", f"tick {t}: {p.pipeline_id} ({p.priority.name}) has no operator")
            continue
        for i, o in enumerate(ops):
            want_parents = [ops[i - 1]] if i else []
            if list(o.parents) != want_parents:
                P("C15:not-a-chain", f"tick {t}: {p.pipeline_id} operator {i} has {len(o.parents)} parents")
            segs = o.get_segments()
            if len(segs) != 1:
                P("C15:segments", f"tick {t}: {p.pipeline_id} operator {i} has {len(segs)} segments")
                continue
            pr = proto_of(segs[0])
            if segs[0].memory_gb is not None:
                P("C15:prototype", f"tick {t}: {p.pipeline_id} operator {i} has fixed memory {segs[0].memory_gb}")
            if p.priority == Priority.QUERY:
                if pr != QUERY_PROTO:
                    P("C15:query-prototype", f"tick {t}: {p.pipeline_id}: {pr}")
            else:
                if pr not in PROTOS:
                    P("C15:prototype", f"tick {t}: {p.pipeline_id} operator {i}: {pr} is not a documented prototype")
                if i == 0 and pr != FIRST_PROTO:
                    P("C15:first-operator", f"tick {t}: {p.pipeline_id} starts with {pr}, not the I/O-heaviest prototype")
        if len(list(p.values)) != len(ops):
            P("C15:iteration", f"tick {t}: {p.pipeline_id} iteration visits {len(list(p.values))} of {len(ops)} operators")


def run_case(spec):
    from eudoxia.utils import Priority
    out = Outcome()
    params, mode = spec["params"], spec["mode"]
    tps = params["ticks_per_second"]

    def P(key, msg):
        if len(out.problems) < 5:
            out.problem(key, msg)

    out.label("mode_" + mode)
    if spec.get("companion") and mode in ("structure", "rare"):
        out.label("second_generator_built_midstream")
    probs = (params["query_prob"], params["interactive_prob"], params["batch_prob"])
    if all(p > 0 for p in probs) and params["num_operators"] >= 3:
        out.label("all_three_classes_ops_ge3")
        out.nontrivial = True
    if any(p == 0 for p in probs):
        out.label("zero_probability_class")
    if any(p == 1 for p in probs):
        out.label("certain_class")
    wticks = params["waiting_seconds_mean"] * tps
    try:
        if mode == "rare":
            events, t = run_events(params, spec.get("events", 150), 200000, P, companion=spec.get("companion"))
            out.extra_evals = sum(len(ps) for _, ps in events)
        elif mode == "structure":
            events, t = run_events(params, 60, 200000, P, companion=spec.get("companion"))
            out.extra_evals = len(events)
            ticks = [e[0] for e in events]
            if any(b - a < 1 for a, b in zip(ticks, ticks[1:])):
                P("C15:events-too-close", f"event ticks {ticks[:10]}")
            if t <= 100000 and not out.problems:
                # the same parameters through the simulator's own entry (run_simulator builds the generator itself): a scheduler
                # that only watches must see the same pipelines in the same ticks
                from verif.checks.c13 import spy_run, fingerprint
                out.label("also_via_run_simulator")
                seen = spy_run({**params, "duration": (t + 0.5) / tps})
                direct = [(tk, fingerprint(p)) for tk, ps in events for p in ps]
                if seen != direct:
                    k = next((i for i, (a, b) in enumerate(zip(seen, direct)) if a != b), min(len(seen), len(direct)))
                    P("C15:run-simulator-generates-differently", f"run_simulator(params) delivered {len(seen)} pipelines in {t} ticks, the generator built directly "
                      f"from the same parameters {len(direct)}; first difference at #{k}: tick {seen[k][0] if k < len(seen) else None} vs {direct[k][0] if k < len(direct) else None}")
        elif mode == "freq":
            npp = params["num_pipelines"]
            events, t = run_events(params, math.ceil(2000 / npp), 10 ** 7, P)
            allp = [p for _, ps in events for p in ps]
            n = len(allp)
            out.extra_evals = n
            if n >= 2000:
                for pr, name in ((Priority.QUERY, "query_prob"), (Priority.INTERACTIVE, "interactive_prob"), (Priority.BATCH_PIPELINE, "batch_prob")):
                    p0 = params[name]
                    f = sum(1 for p in allp if p.priority == pr) / n
                    tol = 6 * math.sqrt(p0 * (1 - p0) / n) + 1e-9
                    if abs(f - p0) > tol:
                        P("C15:class-frequency", f"{pr.name}: frequency {f:.4f} over {n} pipelines, configured {p0} (6 sigma = {tol:.4f})")
                    if p0 == 1 and f != 1:
                        P("C15:certain-class", f"{pr.name} has probability 1 but frequency {f}")
            else:
                out.skipped = "too_few_pipelines"
        elif mode == "ops":
            npp = params["num_pipelines"]
            events, t = run_events(params, math.ceil(1500 / npp), 10 ** 7, P)
            counts = [len(p.values.node_lookup) for _, ps in events for p in ps if p.priority != Priority.QUERY]
            out.extra_evals = len(counts)
            if len(counts) >= 500:
                mu = params["num_operators"]
                mean = sum(counts) / len(counts)
                tol = 1 + 6 * (mu / 4) / math.sqrt(len(counts))
                if abs(mean - mu) > tol:
                    P("C15:operator-count-mean", f"mean operator count {mean:.3f} over {len(counts)} non-query pipelines, num_operators = {mu} (tolerance {tol:.3f})")
            else:
                out.skipped = "too_few_non_query_pipelines"
        elif mode == "gap":
            if wticks >= 50:
                events, t = run_events(params, 1001, int(wticks * 1300) + 1000, P, structure=False)
                ticks = [e[0] for e in events]
                gaps = [b - a for a, b in zip(ticks, ticks[1:])]
                out.extra_evals = len(gaps)
                if len(gaps) >= 1000:
                    mean = sum(gaps) / len(gaps)
                    if abs(mean - wticks) > 0.08 * wticks + 2:
                        P("C15:mean-gap", f"mean gap {mean:.2f} ticks over {len(gaps)} gaps, waiting_seconds_mean * tps = {wticks}")
                    if min(gaps) < 1:
                        P("C15:events-too-close", f"minimum gap {min(gaps)}")
                else:
                    P("C15:mean-gap", f"only {len(gaps)} gaps in {t} ticks although the mean gap should be {wticks} ticks")
            else:
                out.skipped = "mean_gap_below_50_ticks"
        elif mode == "shift":
            shares = {}
            for ratio in (0.0, 1.0):
                p2 = dict(params)
                p2["cpu_io_ratio"] = ratio
                events, t = run_events(p2, 400, 10 ** 6, P if ratio == 0.0 else None)
                later = [proto_of(o.get_segments()[0]) for _, ps in events for p in ps if p.priority != Priority.QUERY
                         for o in list(p.values.node_lookup.values())[1:] if o.get_segments()]
                if len(later) < 500:
                    out.skipped = "too_few_later_operators"
                    return out
                shares[ratio] = (sum(1 for pr in later if pr[0] >= 20) / len(later), len(later))
            out.extra_evals = shares[0.0][1] + shares[1.0][1]
            if shares[1.0][0] - shares[0.0][0] < 0.15:
                P("C15:cpu-io-ratio-has-no-effect", f"share of CPU-heavy prototypes among later operators: {shares[1.0][0]:.3f} at cpu_io_ratio=1 "
                  f"vs {shares[0.0][0]:.3f} at 0 (n = {shares[1.0][1]}, {shares[0.0][1]})")
    except Exception as e:
        P("C15:generator-raised", f"{type(e).__name__}: {e}")
    return out
