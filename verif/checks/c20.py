"""C20 - trace tools change only arrival times, within their stated bounds."""
import contextlib
import csv
import io
import math
import os
import shutil
import subprocess
import sys
from fractions import Fraction as F

from hypothesis import strategies as st

from verif.runner import Outcome, Stats, spec_hash, canon
from verif.checks.c13 import dec

ID = "C20"
RULE = ("Hypothesis-generated trace files (arrivals on the grid as exact decimals / repr(k*(1/tps)) / repr(k/tps), off the grid, "
        "integers, exponents; multi-row pipelines; equal arrivals; tick rates 1..100000; deltas >= 0 incl. 0 and 1e-10; seeds incl. 0) "
        "through `eudoxia tools snap` and `eudoxia tools jitter` (in-process CLI entry point), and `tools sensitivity-sample` in a "
        "child process. Oracle in exact Fractions on the CSV text. snap: output on a tick boundary, tick = floor(x) (or the integer "
        "x lies within 1e-9 relative of), never above the input, less than one tick below, snapping the output again changes nothing, "
        "all rows/order/other columns intact. jitter: every pipeline kept, arrival rises by an amount in [0, delta], only first rows "
        "carry arrivals, pipelines in ascending arrival order, rows of a pipeline contiguous and otherwise unchanged, same seed => "
        "identical file, different seed => different file (delta > 0, >= 3 pipelines). sensitivity-sample: w{i}.csv equals the trace of "
        "random_seed = start_seed + i and different i give different files. Non-trivial = trace with an on-grid value whose float "
        "product lies below the integer, or multi-row pipelines with >= 2 equal arrivals; distinct = sha1 of the case JSON")
ASSUMPTIONS = [
    "input traces are well-formed: unique pipeline ids, rows of a pipeline contiguous, ascending arrivals",
    "order among pipelines whose jittered arrivals are exactly equal is not constrained",
]
FLOORS = {"snap": 0.2, "jitter": 0.2, "float_product_below_integer": 0.02, "equal_arrivals_multirow": 0.05}
FIELDS = ['pipeline_id', 'arrival_seconds', 'priority', 'operator_id', 'parents', 'baseline_cpu_seconds', 'cpu_scaling',
          'memory_gb', 'storage_read_gb']


def plan(tier):
    return [{"kind": "hypothesis", "examples": 2000 if tier == "quick" else 60000},
            {"kind": "function", "func": "sampling", "shards": 2 if tier == "quick" else 8},
            {"kind": "function", "func": "jitter_across_processes", "shards": 3 if tier == "quick" else 12}]


@st.composite
def trace(draw, tier):
    tps = draw(st.sampled_from([10, 100, 3, 7, 1, 2, 5, 20, 30, 128, 1000, 100000]) | st.integers(1, 100000))
    n = draw(st.integers(1, 12))
    span = draw(st.sampled_from([3000, 300, 30000, 10 ** 7, 3 * 10 ** 7, 10 ** 8]))
    if span >= 10 ** 7 and draw(st.integers(0, 3)):
        # millions of ticks: decimal tick rates, where exact-decimal grid values with a float product below the integer exist
        tps = draw(st.sampled_from([100, 100000, 1000, 10000]))
    ks = sorted(draw(st.lists(st.integers(0, span), min_size=n, max_size=n)))
    arr = []
    for k in ks:
        style = draw(st.sampled_from(["dec", "mul", "div", "off", "off", "dup", "int", "exp", "third", "dec_below", "dec_below"]))
        if style == "dup" and arr:
            arr.append(arr[-1])
            continue
        if style == "dec":
            s = dec(F(k, tps)) or repr(k / tps)
        elif style == "dec_below":
            # an exact decimal on the grid whose float product with tps lies below the integer (0.29 * 100 = 28.999999999999996)
            s = None
            for kk in range(k, k + 3000):
                cand = dec(F(kk, tps))
                if cand and float(cand) * tps < kk:
                    s = cand
                    break
            s = s or dec(F(k, tps)) or repr(k / tps)
        elif style == "mul":
            s = repr(k * (1.0 / tps))
        elif style == "div":
            s = repr(k / tps)
        elif style == "off":
            s = repr((k + draw(st.sampled_from([0.001, 0.3, 0.5, 0.95, 0.999]))) / tps)
        elif style == "int":
            s = str(k // tps)
        elif style == "exp":
            s = "%.9e" % (k / tps)
        else:
            s = repr(k / 3)
        arr.append(s)
    arr.sort(key=lambda a: F(a))
    rows = [draw(st.integers(1, 3)) for _ in arr]
    tool = draw(st.sampled_from(["snap", "jitter"]))
    c = {"tps": tps, "arrivals": arr, "rows": rows, "tool": tool}
    if tool == "jitter":
        c["delta"] = draw(st.sampled_from([0.1, 1.0 / tps, 0, 0.0, 1e-10, 2.5, 1e-3, 30]))
        c["seed"] = draw(st.sampled_from([0, 42, 1, 42, 7, 123456]))
    return c


def strategy(tier):
    return trace(tier)


def make_csv(spec):
    buf = io.StringIO()
    w = csv.DictWriter(buf, fieldnames=FIELDS)
    w.writeheader()
    for i, (a, nr) in enumerate(zip(spec["arrivals"], spec["rows"])):
        for j in range(nr):
            w.writerow({"pipeline_id": f"p{i + 1}", "arrival_seconds": a if j == 0 else "", "priority": ["QUERY", "INTERACTIVE", "BATCH_PIPELINE"][i % 3] if j == 0 else "",
                        "operator_id": f"op{j + 1}", "parents": f"op{j}" if j else "", "baseline_cpu_seconds": [15, 2.5, "1e1"][j % 3],
                        "cpu_scaling": ["linear3", "const", "sqrt"][(i + j) % 3], "memory_gb": ["", 0, 4.5][(i + 2 * j) % 3],
                        "storage_read_gb": [35, 55.0, 10][j % 3]})
    return buf.getvalue()


def run_tool(args):
    from eudoxia.__main__ import main
    with contextlib.redirect_stdout(io.StringIO()), contextlib.redirect_stderr(io.StringIO()):
        main(args)


def rows_of(text):
    return list(csv.DictReader(io.StringIO(text)))


def other_fields_equal(a, b):
    for f in FIELDS:
        if f == "arrival_seconds":
            continue
        if a.get(f) != b.get(f):
            x, y = a.get(f), b.get(f)
            try:
                if x not in ("", None) and y not in ("", None) and float(x) == float(y):
                    continue
            except ValueError:
                pass
            return f
    return None


def run_case(spec):
    out = Outcome()

    def P(key, msg):
        if len(out.problems) < 5:
            out.problem(key, msg)

    if spec.get("xproc"):
        prob = jitter_xproc_one(spec)
        out.label("jitter_across_processes")
        if prob:
            P(*prob)
        out.nontrivial = True
        return out
    if "sampling" in spec:
        sp = spec["sampling"]
        prob = sampling_one(sp["params"], sp["n"], sp["start_seed"], "replay", sp.get("reuse_dir", False))
        out.label("sampling_run")
        if prob:
            P(*prob)
        out.nontrivial = True
        return out
    tps = spec["tps"]
    d = os.path.join(os.environ.get("VERIF_HOME", "."), ".work", f"c20-{os.getpid()}")
    os.makedirs(d, exist_ok=True)
    fin, fo1, fo2 = (os.path.join(d, n) for n in ("in.csv", "out1.csv", "out2.csv"))
    text = make_csv(spec)
    with open(fin, "w", newline="") as f:
        f.write(text)
    rin = rows_of(text)
    out.label(spec["tool"])
    eq_arr = len(set(F(a) for a in spec["arrivals"])) < len(spec["arrivals"])
    multirow = any(r > 1 for r in spec["rows"])
    if eq_arr and multirow:
        out.label("equal_arrivals_multirow")
    below = False
    for a in spec["arrivals"]:
        x = F(a) * tps
        if x.denominator == 1 and float(a) * tps < x:
            below = True
    if below:
        out.label("float_product_below_integer")
    try:
        if spec["tool"] == "snap":
            try:
                run_tool(["tools", "snap", fin, fo1, str(tps), "-f"])
                run_tool(["tools", "snap", fo1, fo2, str(tps), "-f"])
            except (Exception, SystemExit) as e:
                P("C20:snap-raised", f"{type(e).__name__}: {e}")
                return out
            r1, r2 = rows_of(open(fo1).read()), rows_of(open(fo2).read())
            if len(r1) != len(rin):
                P("C20:snap-rows", f"{len(rin)} rows in, {len(r1)} out")
                return out
            for k, (a, b) in enumerate(zip(rin, r1)):
                f = other_fields_equal(a, b)
                if f:
                    P("C20:snap-other-column", f"row {k} column {f}: {a.get(f)!r} -> {b.get(f)!r}")
                    break
                if (a["arrival_seconds"] == "") != (b["arrival_seconds"] == ""):
                    P("C20:snap-arrival-presence", f"row {k}: {a['arrival_seconds']!r} -> {b['arrival_seconds']!r}")
                    break
                if a["arrival_seconds"] == "":
                    continue
                x = F(a["arrival_seconds"]) * tps
                y = F(b["arrival_seconds"]) * tps
                tau = F(1, 10 ** 9) * max(1, x)
                k_out = round(y)
                if abs(y - k_out) > tau:
                    P("C20:snap-not-on-boundary", f"row {k}: {a['arrival_seconds']} -> {b['arrival_seconds']} is tick {float(y)!r} at {tps} ticks/s")
                    break
                allowed = {math.floor(x)}
                m = round(x)
                if abs(x - m) <= tau:
                    allowed = {m} | ({m - 1} if x < m else set())
                if k_out not in allowed:
                    P("C20:snap-wrong-tick", f"row {k}: {a['arrival_seconds']} s (tick {float(x)!r}) -> {b['arrival_seconds']} s (tick {k_out}), allowed {sorted(allowed)}")
                    break
                if y > x + tau:
                    P("C20:snap-moved-up", f"row {k}: {a['arrival_seconds']} -> {b['arrival_seconds']}")
                    break
                if x - y >= 1 + tau:
                    P("C20:snap-more-than-a-tick", f"row {k}: {a['arrival_seconds']} -> {b['arrival_seconds']}")
                    break
            if not out.problems:
                for k, (a, b) in enumerate(zip(r1, r2)):
                    if a["arrival_seconds"] != b["arrival_seconds"] and (a["arrival_seconds"] == "" or b["arrival_seconds"] == ""
                                                                        or float(a["arrival_seconds"]) != float(b["arrival_seconds"])):
                        P("C20:snap-not-idempotent", f"row {k}: {rin[k]['arrival_seconds']} -> {a['arrival_seconds']} -> {b['arrival_seconds']} at {tps} ticks/s")
                        break
        else:
            delta, seed = spec["delta"], spec["seed"]
            try:
                run_tool(["tools", "jitter", fin, fo1, repr(float(delta)), "-s", str(seed), "-f"])
                run_tool(["tools", "jitter", fin, fo2, repr(float(delta)), "-s", str(seed), "-f"])
            except (Exception, SystemExit) as e:
                P("C20:jitter-raised", f"{type(e).__name__}: {e}")
                return out
            t1, t2 = open(fo1).read(), open(fo2).read()
            if t1 != t2:
                P("C20:jitter-not-reproducible", f"two runs with seed {seed} differ")
            if seed == 42:
                # the command line documents "Random seed (default: 42)": leaving -s out is the run with seed 42
                out.label("jitter_default_seed")
                try:
                    run_tool(["tools", "jitter", fin, fo2, repr(float(delta)), "-f"])
                except (Exception, SystemExit) as e:
                    P("C20:jitter-raised", f"{type(e).__name__}: {e}")
                    return out
                if open(fo2).read() != t1:
                    P("C20:jitter-not-reproducible", f"`tools jitter` without -s (documented default seed 42) differs from the run with -s 42 (delta {delta})")
            r1 = rows_of(t1)
            by_pid_in = {}
            for r in rin:
                by_pid_in.setdefault(r["pipeline_id"], []).append(r)
            groups = []
            for r in r1:
                if groups and groups[-1][0] == r["pipeline_id"]:
                    groups[-1][1].append(r)
                else:
                    groups.append((r["pipeline_id"], [r]))
            pids_out = [g[0] for g in groups]
            if sorted(pids_out) != sorted(by_pid_in):
                missing = sorted(set(by_pid_in) - set(pids_out))
                P("C20:jitter-pipelines", f"pipelines in {len(by_pid_in)}, groups out {len(pids_out)}; missing {missing[:5]}; split or duplicated {sorted(p for p in set(pids_out) if pids_out.count(p) > 1)[:5]}")
                return out
            prev = None
            for pid, rows in groups:
                src = by_pid_in[pid]
                if len(rows) != len(src):
                    P("C20:jitter-rows", f"{pid}: {len(src)} rows in, {len(rows)} out")
                    break
                bad = False
                for j, (a, b) in enumerate(zip(src, rows)):
                    f = other_fields_equal(a, b)
                    if f:
                        P("C20:jitter-other-column", f"{pid} row {j} column {f}: {a.get(f)!r} -> {b.get(f)!r}")
                        bad = True
                        break
                    if j > 0 and b["arrival_seconds"] != "":
                        P("C20:jitter-arrival-on-later-row", f"{pid} row {j}: {b['arrival_seconds']!r}")
                        bad = True
                        break
                if bad:
                    break
                x, y = F(src[0]["arrival_seconds"]), F(rows[0]["arrival_seconds"])
                ulp = F(math.ulp(max(float(y), 1e-300))) * 2
                if y < x - ulp or y > x + F(float(delta)) + ulp:
                    P("C20:jitter-out-of-bounds", f"{pid}: {src[0]['arrival_seconds']} -> {rows[0]['arrival_seconds']} with delta {delta}")
                    break
                if prev is not None and y < prev:
                    P("C20:jitter-not-sorted", f"{pid} arrival {float(y)} written after {float(prev)}")
                    break
                prev = y
            if not out.problems and float(delta) > 1e-6 and len(groups) >= 3:
                try:
                    run_tool(["tools", "jitter", fin, fo2, repr(float(delta)), "-s", str(seed + 1), "-f"])
                except (Exception, SystemExit) as e:
                    P("C20:jitter-raised", f"{type(e).__name__}: {e}")
                    return out
                if open(fo2).read() == t1:
                    P("C20:jitter-seed-ignored", f"seeds {seed} and {seed + 1} give the same file (delta {delta})")
    finally:
        for x in (fin, fo1, fo2):
            if os.path.exists(x):
                os.remove(x)
    out.nontrivial = below or (eq_arr and multirow)
    return out


# ----------------------------------------------------------------------------- sensitivity-sample (child process)

def sampling_one(params, n, start, tag, tag_reuse=False):
    """runs `tools sensitivity-sample` in a child process; returns (key, msg) or None"""
    from eudoxia.simulator import parse_args_with_defaults
    from eudoxia.workload import WorkloadGenerator
    from eudoxia.workload.csv_io import CSVWorkloadWriter, WorkloadTraceGenerator
    home = os.environ.get("VERIF_HOME", ".")
    d = os.path.join(home, ".work", f"c20s-{os.getpid()}-{tag}")
    shutil.rmtree(d, ignore_errors=True)
    os.makedirs(d)
    try:
        pf = os.path.join(d, "params.toml")
        with open(pf, "w") as f:
            for k, v in params.items():
                f.write(f"{k} = {v!r}\n" if not isinstance(v, str) else f'{k} = "{v}"\n')
        if tag_reuse:
            # the output directory already holds the samples of an earlier run with another start seed
            r0 = subprocess.run([sys.executable, "-m", "eudoxia", "tools", "sensitivity-sample", pf, os.path.join(d, "out"), str(n),
                                 "--start-seed", str(start + 500)], env=dict(os.environ), capture_output=True, text=True, timeout=900)
            if r0.returncode != 0:
                return ("C20:sampling-failed", f"exit {r0.returncode}: {r0.stderr[-400:]}")
        r = subprocess.run([sys.executable, "-m", "eudoxia", "tools", "sensitivity-sample", pf, os.path.join(d, "out"), str(n),
                            "--start-seed", str(start)], env=dict(os.environ), capture_output=True, text=True, timeout=900)
        if r.returncode != 0:
            return ("C20:sampling-failed", f"exit {r.returncode}: {r.stderr[-400:]}")
        texts = []
        for i in range(n):
            path = os.path.join(d, "out", f"w{i}.csv")
            if not os.path.exists(path):
                return ("C20:sampling-missing-file", f"w{i}.csv not written")
            texts.append(open(path).read())
            full = parse_args_with_defaults(dict(params))
            full["random_seed"] = start + i
            buf = io.StringIO()
            w = CSVWorkloadWriter(buf)
            for row in WorkloadTraceGenerator(workload=WorkloadGenerator(**full), ticks_per_second=full["ticks_per_second"],
                                              duration_secs=full["duration"]).generate_rows():
                w.write_row(row)
            if list(csv.reader(io.StringIO(texts[-1]))) != list(csv.reader(io.StringIO(buf.getvalue()))):
                return ("C20:sample-not-from-its-seed", f"w{i}.csv differs from the trace generated with random_seed = {start + i}")
        if len(set(texts)) != len(texts):
            return ("C20:samples-identical", f"{n} samples, {len(set(texts))} distinct files")
        return None
    finally:
        shutil.rmtree(d, ignore_errors=True)


def jitter_xproc_one(spec):
    """`tools jitter` with the same seed in two fresh interpreters under different hash seeds, and in this process:
    the three output files must be identical"""
    home = os.environ.get("VERIF_HOME", ".")
    d = os.path.join(home, ".work", f"c20x-{os.getpid()}")
    shutil.rmtree(d, ignore_errors=True)
    os.makedirs(d)
    try:
        fin = os.path.join(d, "in.csv")
        with open(fin, "w", newline="") as f:
            f.write(make_csv(spec))
        outs = []
        for hs in spec["hash_seeds"]:
            fo = os.path.join(d, f"out{hs}.csv")
            env = dict(os.environ)
            env["PYTHONHASHSEED"] = str(hs)
            r = subprocess.run([sys.executable, "-m", "eudoxia", "tools", "jitter", fin, fo, repr(float(spec["delta"])), "-s", str(spec["seed"]), "-f"],
                               env=env, capture_output=True, text=True, timeout=300)
            if r.returncode != 0:
                return ("C20:jitter-raised", f"exit {r.returncode}: {r.stderr[-300:]}")
            outs.append(open(fo).read())
        fo = os.path.join(d, "out_inproc.csv")
        run_tool(["tools", "jitter", fin, fo, repr(float(spec["delta"])), "-s", str(spec["seed"]), "-f"])
        outs.append(open(fo).read())
        if len(set(outs)) != 1:
            return ("C20:jitter-not-reproducible", f"seed {spec['seed']}, delta {spec['delta']}: runs under PYTHONHASHSEED {spec['hash_seeds']} and in-process give {len(set(outs))} different files")
        return None
    finally:
        shutil.rmtree(d, ignore_errors=True)


def jitter_across_processes(tier, seed, shard, nshards):
    st_ = Stats()
    viol = None
    n = 6 + (seed + shard) % 5
    arrivals = [repr(k * 0.37 + (shard % 3) * 0.11) for k in range(n)]
    spec = {"xproc": True, "tps": 10, "arrivals": arrivals, "rows": [1 + (k + shard) % 3 for k in range(n)], "tool": "jitter",
            "delta": [0.5, 2.0, 0.05][shard % 3], "seed": (seed * 13 + shard) % 1000, "hash_seeds": [shard % 7, 11 + shard]}
    prob = jitter_xproc_one(spec)
    st_.evaluations += 1
    st_.labels["jitter_across_processes"] += 1
    st_.nontrivial.add(spec_hash(spec))
    if prob:
        viol = {"spec": spec, "problem": {"key": prob[0], "msg": prob[1], "known": None}}
    return {"shard": shard, "stats": st_.to_json(), "violation": viol, "harness": None}


def sampling(tier, seed, shard, nshards):
    st_ = Stats()
    viol = None
    start = 1 + (seed * 31 + shard * 7) % 1000
    if shard % 2 == 1:
        start = 2 ** 32 - 2 + (seed + shard) % 2      # seeds beyond 32 bits are seeds too
    n = 3
    params = {"duration": 20, "ticks_per_second": 10, "waiting_seconds_mean": 1.5, "num_pipelines": 2, "num_operators": 3,
              "num_pools": 2, "cpus_per_pool": 16, "ram_gb_per_pool": 128, "scheduler_algo": ["priority", "naive"][shard % 2],
              "random_seed": 5}
    reuse = shard % 3 == 0        # the output directory already holds the samples of an earlier run with another start seed
    spec = {"sampling": {"params": params, "n": n, "start_seed": start, "reuse_dir": reuse}}
    prob = sampling_one(params, n, start, shard, reuse)
    st_.evaluations += 1
    st_.labels["sampling_run"] += 1
    st_.nontrivial.add(spec_hash(spec))
    st_.samples.append((len(canon(spec)), spec_hash(spec), spec, ["sampling_run"]))
    if prob:
        viol = {"spec": spec, "problem": {"key": prob[0], "msg": prob[1], "known": None}}
    return {"shard": shard, "stats": st_.to_json(), "violation": viol, "harness": None}
