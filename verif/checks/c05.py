"""C05 - container execution follows the documented time and memory model.

Domain: one container alone in a real pool; 1-6 operators x 1-3 segments, all seven laws, fixed or
growing memory, zero / sub-tick / on-grid / mid-tick / nice quantities, any CPU count, RAM around
the demand steps, tick rates 1..100000.
Oracle: verif.model.container.Matcher (exact rational arithmetic, boundary sets) must explain the
observed per-tick memory, operator states and result.
"""
from fractions import Fraction as F

from hypothesis import strategies as st

from verif.runner import Outcome
from verif.model import ticks as T
from verif.model.container import Matcher

ID = "C05"
RULE = ("Hypothesis-generated single-container cases (operator lists x allocation x tick rate) executed in a real "
        "ResourcePool and compared tick by tick with an exact-rational trace predictor; when the container is OOM-killed "
        "its unfinished operators are run again in a second container with another CPU count and allocation and matched the "
        "same way (segments and operators must be unchanged by the first run); non-trivial = at least 2 "
        "operators or 2 segments AND (OOM after the first tick, or an operator that rounds to zero ticks, or a "
        "growing-memory I/O phase of >= 2 ticks); distinct = sha1 of the canonical case JSON")
ASSUMPTIONS = [
    "scaling laws linear7/log/squared/exp transcribed from the pinned commit (README documents const, linear3, sqrt)",
    "float-computed quantities within 1e-9 relative (1e-8 for log/sqrt) of a tick or limit boundary may fall on either side",
    "an operator whose phases all round to zero ticks occupies one CPU-phase tick of its last segment",
    "cases whose predictor has more than 64 phase-length combinations for one operator, or that need more than the tick cap, are counted as not judged",
]
FLOORS = {"retried": 0.02, "term_oom": 0.03, "term_ok": 0.2, "zero_tick_op": 0.01, "ramp": 0.2, "multi_seg": 0.1, "ambiguous": 0.02}
TICK_CAP = {"quick": 3000, "thorough": 12000}

NICE = [0.1, 0.25, 1, 2, 2.5, 5, 10, 15, 20, 30, 35, 37.5, 40, 45, 55, 80]
TPS = [1, 2, 3, 5, 7, 10, 20, 50, 100, 1000, 10000, 100000]
CPUS = [1, 2, 3, 4, 6, 7, 8, 16, 64]


def plan(tier):
    return [{"kind": "hypothesis", "examples": 6000 if tier == "quick" else 300000}]


@st.composite
def phase_seconds(draw, tps, kmax):
    """A duration in seconds, biased to the corners that matter for int(secs / (1/tps))."""
    kind = draw(st.sampled_from(["zero", "sub", "grid", "grid", "mid", "mid", "nice", "float", "eps"]))
    k = draw(st.integers(0, kmax))
    if kind == "zero":
        return draw(st.sampled_from([0, 0.0]))
    if kind == "sub":
        return draw(st.floats(0.001, 0.999)) / tps
    if kind == "grid":
        return draw(st.sampled_from([k / tps, k * (1.0 / tps)]))
    if kind == "mid":
        return (k + 0.5) / tps
    if kind == "eps":
        return k / tps + draw(st.sampled_from([-1, 1])) * 1e-7 / tps if k else 0.3 / tps
    if kind == "nice":
        v = draw(st.sampled_from(NICE))
        if v * tps <= 4 * kmax + 60:
            return v
        return k / tps
    return draw(st.floats(0, (kmax + 1) / tps, allow_nan=False))


@st.composite
def container_case(draw, tier="quick"):
    tps = draw(st.sampled_from(TPS) | st.integers(1, 100000))
    cpus = draw(st.sampled_from(CPUS) | st.integers(1, 64))
    nops = draw(st.sampled_from([1, 1, 2, 2, 3, 4, 6]))
    kmax = 12 if tier == "quick" else 40
    ops = []
    levels = []
    for _ in range(nops):
        segs = []
        for _ in range(draw(st.sampled_from([1, 1, 1, 2, 3]))):
            law = draw(st.sampled_from(T.LAWS))
            io_s = draw(phase_seconds(tps, kmax))
            cpu_s = draw(phase_seconds(tps, kmax))
            read = io_s * 20
            sp, _ = T.speedup(law, cpus)
            mode = draw(st.sampled_from(["exact", "scaled", "scaled"]))
            base = cpu_s if mode == "exact" else cpu_s * float(sp)
            memkind = draw(st.sampled_from(["ramp", "ramp", "ramp", "zero", "fixed", "fixed_small"]))
            if memkind == "ramp":
                mem = None
            elif memkind == "zero":
                mem = draw(st.sampled_from([0, 0.0]))
            elif memkind == "fixed":
                mem = draw(st.sampled_from(NICE))
            else:
                mem = draw(st.floats(0.01, 4.0))
            sgd = {"cpu": base, "law": law, "mem": mem, "read": read}
            if mem is not None and draw(st.integers(0, 5)) == 0:
                # the fixed memory figure given as a numpy scalar instead of a Python number (same value)
                import numpy as _np
                # (64-bit kinds only: a float32 figure makes numpy compare `usage > allocation` in single precision, so that
                # 0.10000000149 > 0.1 is False - an artefact of the argument type, not of the memory model)
                kinds = ["np.float64"] + (["np.int64"] if float(mem) == int(mem) else [])
                sgd["memtype"] = draw(st.sampled_from(kinds))
            segs.append(sgd)
            levels.append(mem if mem is not None else read)
            if mem is None and read > 0:
                levels.append(20.0 / tps)
        if len(segs) >= 2 and draw(st.integers(0, 3)) == 0:
            segs.append(dict(segs[0]))      # the same stage again (scan, crunch, scan): built as ONE Segment object listed twice
        ops.append(segs)
    peak = max(levels + [0.0])
    ramkind = draw(st.sampled_from(["above", "above", "above", "equal", "equal", "below", "between", "nice", "tiny"]))
    lv = draw(st.sampled_from(levels))
    if ramkind == "above":
        ram = peak * draw(st.sampled_from([1.0, 1.5, 4])) + draw(st.sampled_from([0.5, 1, 10]))
    elif ramkind == "equal":
        ram = lv
    elif ramkind == "below":
        ram = lv * draw(st.floats(0.05, 0.999))
    elif ramkind == "between":
        ram = lv + draw(st.floats(0.0, 1.0)) * max(peak - lv, 0.0)
    elif ramkind == "nice":
        ram = draw(st.sampled_from([0.3, 1, 4, 10, 20, 30, 40, 55, 64, 100]))
    else:
        ram = draw(st.sampled_from([1e-9, 0.001, 19.999 / tps, 20.0 / tps, 20.001 / tps]))
    if not ram > 0:
        ram = 1
    case = {"tps": tps, "cpus": cpus, "ram": ram, "ops": ops}
    if nops >= 3 and draw(st.booleans()):
        # the operators form a DAG (parents among earlier operators); the assigned order is the insertion order, which is
        # a valid execution order but in general not the one a sort by depth or parent count would give
        case["parents"] = [sorted(set(draw(st.lists(st.integers(0, i - 1), min_size=0, max_size=3)))) if i else [] for i in range(nops)]
    if draw(st.booleans()):
        # if the container is OOM-killed its unfinished operators are run again in a second container of another size
        case["retry"] = {"cpus": draw(st.sampled_from([1, 1, 2, 3] + CPUS) | st.integers(1, 64)),
                         "ram": peak * draw(st.sampled_from([1.0, 2.0])) + draw(st.sampled_from([0.5, 1, 10])) if draw(st.integers(0, 3)) else ram * 2}
    return case


@st.composite
def rescaled_retry_case(draw, tier="quick"):
    """Family: an operator is OOM-killed and run again with fewer CPUs, so that phases which rounded to zero ticks in the
    first container take ticks in the second (and vice versa)."""
    tps = draw(st.sampled_from([10, 1, 2, 5, 20, 100, 1000]))
    cpus = draw(st.sampled_from([4, 8, 16, 64, 3, 7]))
    nops = draw(st.integers(1, 3))
    victim = draw(st.integers(0, nops - 1))
    ops = []
    peak_before = 0.0
    for i in range(nops):
        segs = []
        nseg = draw(st.integers(2, 3)) if i == victim else draw(st.sampled_from([1, 2]))
        for j in range(nseg):
            law = draw(st.sampled_from([l for l in T.LAWS if l != "const"]))
            sp, _ = T.speedup(law, cpus)
            last = j == nseg - 1
            if i == victim and last:
                # no I/O, CPU time below one tick at `cpus` but several ticks on one CPU
                segs.append({"cpu": draw(st.sampled_from([0.3, 0.6, 0.9])) / tps * float(sp), "law": law, "mem": draw(st.sampled_from([None, 0.5])), "read": 0.0})
            else:
                k = draw(st.integers(1, 4))
                segs.append({"cpu": (draw(st.integers(0, 2)) + 0.5) / tps * float(sp), "law": law, "mem": None, "read": (k + 0.5) * 20.0 / tps})
        ops.append(segs)
    # allocation: enough for every operator before the victim, too little for the victim's first segment
    before = max([sg["read"] for segs in ops[:victim] for sg in segs] + [0.0])
    vic = ops[victim][0]["read"]
    if vic <= before:
        ops[victim][0]["read"] = vic = before + 2 * 20.0 / tps
    ram = before + (vic - before) * draw(st.sampled_from([0.5, 0.25, 0.75]))
    peak = max(sg["read"] for segs in ops for sg in segs)
    return {"tps": tps, "cpus": cpus, "ram": ram, "ops": ops,
            "retry": {"cpus": draw(st.sampled_from([1, 1, 2])), "ram": peak + draw(st.sampled_from([1, 0.5, 10]))}}


def strategy(tier):
    return st.one_of(container_case(tier), container_case(tier), container_case(tier), container_case(tier), rescaled_retry_case(tier))


def build_pipeline(ops_spec, name="p", parents=None):
    from eudoxia.workload.pipeline import Segment, Pipeline
    from eudoxia.utils import Priority
    p = Pipeline(name, Priority.BATCH_PIPELINE)
    prev = None
    real = []
    for k, segs in enumerate(ops_spec):
        if parents is not None:
            o = p.new_operator([real[j] for j in parents[k]] or None)
        else:
            o = p.new_operator([prev] if prev else None)
        same = {}
        for sg in segs:
            key = (sg["cpu"], sg["law"], sg["mem"], sg["read"])
            if key not in same or k % 2:
                # identical stages of an even-numbered operator are one Segment object added twice
                same[key] = Segment(baseline_cpu_seconds=sg["cpu"], cpu_scaling=sg["law"], memory_gb=typed(sg["mem"], sg.get("memtype")), storage_read_gb=sg["read"])
            o.add_segment(same[key])
        prev = o
        real.append(o)
    return p, real


def typed(value, kind):
    if kind is None or value is None:
        return value
    import numpy as np
    return {"np.float64": np.float64, "np.float32": np.float32, "np.int64": np.int64, "np.int32": np.int32}[kind](value)


def run_case(spec, tick_cap=None):
    from eudoxia.executor.resource_pool import ResourcePool
    from eudoxia.executor.assignment import Assignment
    out = Outcome()
    tps, cpus, ram, ops = spec["tps"], spec["cpus"], spec["ram"], spec["ops"]
    cap = tick_cap or TICK_CAP["thorough"]
    m = Matcher(ops, cpus, ram, tps)
    if m.too_ambiguous:
        out.skipped = "too_ambiguous"
        return out
    if m.max_ticks() > cap:
        out.skipped = "too_long"
        return out
    # classification (from the spec and the model only)
    nseg = sum(len(s) for s in ops)
    if len(ops) > 1:
        out.label("multi_op")
    if nseg > len(ops):
        out.label("multi_seg")
    zero_op = any(all(min(T.io_ticks(sg["read"], tps)) == 0 and min(T.cpu_ticks(sg["law"], cpus, sg["cpu"], tps)) == 0
                      for sg in segs) for segs in ops)
    if zero_op:
        out.label("zero_tick_op")
    ramp = any(sg["mem"] is None and max(T.io_ticks(sg["read"], tps)) >= 2 for segs in ops for sg in segs)
    if ramp:
        out.label("ramp")
    if any(sg["mem"] is not None for segs in ops for sg in segs):
        out.label("fixed_mem")
    for segs in ops:
        for sg in segs:
            out.label("law_" + sg["law"])
    if tps >= 10000:
        out.label("tps_high")
    if tps <= 3:
        out.label("tps_low")

    pool = ResourcePool(0, 1000, 10 ** 9, tps)
    p, real = build_pipeline(ops, parents=spec.get("parents"))
    if spec.get("parents"):
        out.label("dag_order")
    t = 0
    terminal = None
    try:
        a = Assignment(real, cpus, ram, p.priority, 0, "p")
        res = pool.run_one_tick([], [a])
        while True:
            t += 1
            cont = pool.active_containers[0] if pool.active_containers else None
            mem = cont.get_current_memory_usage() if cont else 0.0
            states = tuple(o.state().value for o in real)
            if res:
                if len(res) != 1:
                    out.problem("result-count", f"{len(res)} results in tick {t}")
                    return out
                terminal = "oom" if res[0].failed() else "ok"
                if cont is not None:
                    out.problem("container-still-active", f"result delivered in tick {t} but container still listed")
                    return out
            why = m.step(mem, states, terminal)
            if why:
                out.problem("trace-mismatch", f"tick {t}: {why}")
                return out
            if terminal:
                break
            if t > m.max_ticks() + 2:
                out.problem("no-result", f"no result after {t} ticks, predicted at most {m.max_ticks()}")
                return out
            res = pool.run_one_tick([], [])
    except Exception as e:  # the property says every such container runs to a result
        out.problem("exception:" + type(e).__name__, f"tick {t + 1}: {type(e).__name__}: {e}")
        return out
    out.extra_evals = t
    out.label("term_" + terminal)
    if terminal == "oom" and spec.get("retry"):
        # second container for the failed suffix (operators are re-assigned from FAILED), other CPU count and allocation
        k = sum(1 for o in real if o.state().value == "completed")
        rest_spec, rest_real = ops[k:], real[k:]
        c2, r2 = spec["retry"]["cpus"], spec["retry"]["ram"]
        m2 = Matcher(rest_spec, c2, r2, tps)
        if not m2.too_ambiguous and m2.max_ticks() <= cap:
            out.label("retried")
            try:
                a2 = Assignment(rest_real, c2, r2, p.priority, 0, "p")
                res = pool.run_one_tick([], [a2])
                t2 = 0
                term2 = None
                while True:
                    t2 += 1
                    cont = pool.active_containers[0] if pool.active_containers else None
                    mem = cont.get_current_memory_usage() if cont else 0.0
                    states = tuple(o.state().value for o in rest_real)
                    if res:
                        term2 = "oom" if res[0].failed() else "ok"
                    why = m2.step(mem, states, term2)
                    if why:
                        out.problem("retry-trace-mismatch", f"second container (cpus {c2}, ram {r2}) tick {t2}: {why}")
                        return out
                    if term2:
                        break
                    if t2 > m2.max_ticks() + 2:
                        out.problem("no-result", f"second container: no result after {t2} ticks")
                        return out
                    res = pool.run_one_tick([], [])
                out.extra_evals += t2
                out.label("retry_term_" + term2)
            except Exception as e:
                out.problem("exception:" + type(e).__name__, f"second container: {type(e).__name__}: {e}")
                return out
    if terminal == "oom":
        out.label("oom_first_tick" if t == 1 else "oom_later")
    if m.ambiguous:
        out.label("ambiguous")
    if pool.avail_cpu_pool != 1000 or abs(pool.avail_ram_pool - 10 ** 9) > 1e-3:
        out.problem("allocation-not-returned", f"pool free after result: {pool.avail_cpu_pool} cpu {pool.avail_ram_pool} GB")
    out.nontrivial = (len(ops) > 1 or nseg > 1) and ((terminal == "oom" and t > 1) or zero_op or ramp)
    return out
