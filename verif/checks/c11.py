"""C11 - pool-level OOM kills take highest scorers first and stop once usage fits."""
from hypothesis import strategies as st
from ._pool_common import make_run_case, machine_spec

ID = "C11"
RULE = ("Pool-machine histories with overcommit on, 2-8 concurrent containers with allocations 10-200 % of capacity and "
        "fixed / growing usage arranged to cross capacity; the set of failed results of each tick (beyond containers over "
        "their own limit) is validated against the per-container demand of an independent model: needed, descending "
        "score usage^2/allocation (no survivor with a strictly higher score), minimal (stop as soon as usage fits), "
        "sufficient, never a container that finished in that tick or uses no memory. Non-trivial = a capacity-crossing "
        "tick with >= 3 eligible containers whose usage order differs from score order, or >= 2 victims in one tick; "
        "distinct = sha1 of the case JSON")
ASSUMPTIONS = ["pool demand within 1e-6 GB of capacity: kill or no kill both accepted; score ties: any order accepted"]
FLOORS = {"crossing_with_tie": 20, "usage_exactly_at_capacity": 20, "capacity_crossed": 0.1, "pool_level_kill": 0.1, "two_victims_one_tick": 0.01,
          "crossing_3plus_usage_order_ne_score_order": 0.01}


def plan(tier):
    n = 4000 if tier == "quick" else 50000
    return [{"kind": "hypothesis", "examples": n}]


def strategy(tier):
    return st.one_of(machine_spec("oom", tier), machine_spec("oom", tier), machine_spec("oom", tier), machine_spec("edge", tier))


run_case = make_run_case({"C11", "C04"}, lambda o: "crossing_3plus_usage_order_ne_score_order" in o.labels
                         or "two_victims_one_tick" in o.labels)
