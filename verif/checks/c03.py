"""C03 - pool CPU and RAM are conserved: never lost, never double-freed, never oversold."""
from hypothesis import strategies as st
from ._pool_common import make_run_case, machine_spec

ID = "C03"
RULE = ("Hypothesis-generated command histories (batches of 0-4 assignments with sizes at / below / above the free "
        "resources, suspensions legal or not, idle ticks, bad commands) interpreted against a real Executor and an "
        "independent ledger model in lock-step; after every tick: free + allocated(active+suspending) == capacity per "
        "pool from the implementation's own figures, free figures equal the model's (allocation returned exactly once, "
        "in the tick of completion / kill / end of suspension), overselling batches raise and leave the pool untouched, and after one more empty call following any refused round every pool still accounts for its whole capacity; the same conservation monitor runs over every tick of generated full simulations under all shipped schedulers and a custom tape scheduler. "
        "Non-trivial = episode with >= 1 OOM failure, >= 1 finished suspension and >= 1 batch of >= 2 containers; "
        "distinct = sha1 of the case JSON")
ASSUMPTIONS = [
    "phases are constructed (k + 1/2) ticks long so the model is deterministic; a RAM sum within 1e-6 GB of the free RAM may be accepted or refused",
    "an episode ends at the first rejected round (the executor is mid-tick afterwards; no property covers continuing)",
]
FLOORS = {"had_failure": (0.1, "pm"), "suspension_finished": (0.03, "pm"), "batch_ge2": (0.2, "pm"), "reject_C03": (0.003, "pm"),
          "overcommit": (0.2, "pm"), "full_simulation": 100}


def plan(tier):
    n = 4000 if tier == "quick" else 50000
    return [{"kind": "hypothesis", "examples": n},
            {"kind": "hypothesis", "examples": 1000 if tier == "quick" else 15000, "module": "verif.checks.c03_sim", "shard_base": 100}]


def strategy(tier):
    return st.one_of(machine_spec("general", tier), machine_spec("general", tier), machine_spec("suspend", tier),
                     machine_spec("multi_pool", tier), machine_spec("twins", tier), machine_spec("huge", tier), machine_spec("branches", tier))


_pool_run_case = make_run_case({"C03"}, lambda o: {"had_failure", "suspension_finished", "batch_ge2"} <= set(o.labels))


def run_case(spec):
    if "steps" not in spec:     # a full-simulation case (second part of the plan)
        from verif.checks import c03_sim
        return c03_sim.run_case(spec)
    return _pool_run_case(spec)
