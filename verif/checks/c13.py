"""C13 - trace replay delivers each pipeline once, at the first tick >= its arrival."""
import io
import math
import os
from fractions import Fraction as F

from hypothesis import strategies as st

from verif.runner import Outcome, Stats, spec_hash, canon

ID = "C13"
KNOWN_KEYS = ["late-on-grid"]
RULE = ("(a) exhaustive grid: every k <= 20000 (quick: 4000) x {repr(k*(1/tps)), repr(k/tps)} x 12 tick rates replayed through "
        "CSVWorkloadReader + WorkloadTrace; (b) Hypothesis traces: arrival strings on the grid (exact decimals, repr(k*(1/tps)), "
        "repr(k/tps)), off the grid by >= 1e-3 tick, integers and exponent notation, several pipelines per tick, gaps up to 10^4 "
        "(thorough 10^6) ticks, tick rates 1..100000; (c) gentrace round trips: WorkloadGenerator -> gentrace -> reader versus the "
        "same generator run directly. Oracle: x = Fraction(text) * tps exactly; each pipeline delivered exactly once, never before "
        "x, in tick ceil(x) (or k when x is within 1e-12 relative - float rounding - above an integer k), file order kept inside a tick, nothing "
        "delivered beyond the last tick; round trip: same tick and same pipelines. Non-trivial = trace with >= 2 pipelines in one "
        "tick and >= 1 off-grid arrival (b), round trip with >= 3 arrival events (c); distinct = sha1 of the case JSON")
ASSUMPTIONS = [
    "rows are in ascending arrival order (the statement's precondition); ties keep file order",
    "known finding late-on-grid: delivery exactly one tick after k for an arrival within 1e-12 relative of boundary k for which the IEEE "
    "expression float(text) / (1.0/tps) > k is true; anything else late, early, lost, duplicated or reordered is a violation",
]
FLOORS = {"trace": 100, "roundtrip": 30, "two_in_one_tick_and_off_grid": 50}
TPS12 = [1, 2, 3, 5, 7, 10, 20, 50, 100, 1000, 10000, 100000]
TAU_REL = F(1, 10 ** 12)     # float rounding of arrival / (1.0/tps): a few 1e-16 relative; 1e-12 leaves three orders of margin
HEADER = "pipeline_id,arrival_seconds,priority,operator_id,parents,baseline_cpu_seconds,cpu_scaling,memory_gb,storage_read_gb\n"


def plan(tier):
    return [{"kind": "function", "func": "grid"},
            {"kind": "hypothesis", "examples": 3000 if tier == "quick" else 60000},
            {"kind": "function", "func": "fuzz", "shards": 2 if tier == "quick" else 8}]


# ----------------------------------------------------------------------------- oracle

def allowed_ticks(text, tps):
    x = F(text) * tps
    c = math.ceil(x)
    out = {c}
    tau = TAU_REL * max(1, x)
    k = math.floor(x)
    if x - k <= tau:        # within float rounding above an integer: that tick is fine too
        out.add(k)
    return x, out


def is_known_late(text, tps, got):
    """signature of the recorded finding"""
    x = F(text) * tps
    k = round(x)
    tau = TAU_REL * max(1, x)
    if abs(x - k) > tau:
        return False
    if got != k + 1:
        return False
    return float(text) / (1.0 / tps) > k


def replay(csv_text, tps, nticks):
    from eudoxia.workload.csv_io import CSVWorkloadReader
    wl = CSVWorkloadReader(io.StringIO(csv_text)).get_workload(tps)
    delivered = []
    for t in range(nticks):
        for p in wl.run_one_tick():
            delivered.append((t, p.pipeline_id))
    return delivered


ID_STYLES = {"p": "p{}", "hash": "#{}", "digits": "{}", "dash": "p-{}", "space": "job {}", "comma": "a,{}", "long": "pipeline_" + "x" * 60 + "_{}"}


def judge(arrivals, tps, nticks, delivered, P, idstyle="p"):
    """arrivals: list of text in file order (pipeline ids p0, p1, ... or the same numbers in another spelling)."""
    seen = {}
    order = []
    back = {ID_STYLES[idstyle].format(i): f"p{i}" for i in range(len(arrivals))}
    for t, pid in delivered:
        if pid not in back:
            P("C13:unknown-pipeline", f"tick {t}: delivered a pipeline called {pid!r}, the file has no such pipeline")
            return 0
        pid = back[pid]
        if pid in seen:
            P("C13:delivered-twice", f"{pid} delivered in ticks {seen[pid]} and {t}")
            return 0
        seen[pid] = t
        order.append(pid)
    known = 0
    for i, text in enumerate(arrivals):
        pid = f"p{i}"
        x, ok = allowed_ticks(text, tps)
        got = seen.get(pid)
        if got is None:
            # required only if every allowed tick lies inside the run (an arrival a rounding error above boundary k may
            # legitimately fall in tick k+1, which can be beyond the end)
            if max(ok) <= nticks - 1:
                if is_known_late(text, tps, nticks) and max(ok) == nticks - 1:
                    known += 1
                    P("C13:late", f"{pid} arrival {text} s at {tps} ticks/s not delivered in the last tick {nticks - 1}", known="late-on-grid")
                else:
                    P("C13:not-delivered", f"{pid} arrival {text} s = tick {float(x)} at {tps} ticks/s never delivered in {nticks} ticks")
            continue
        if got in ok:
            continue
        if got < x - TAU_REL * max(1, x):
            P("C13:early", f"{pid} arrival {text} s = tick {float(x)} at {tps} ticks/s delivered in tick {got}")
        elif is_known_late(text, tps, got):
            known += 1
            P("C13:late", f"{pid} arrival {text} s = tick {float(x)} at {tps} ticks/s delivered in tick {got}", known="late-on-grid")
        else:
            P("C13:wrong-tick", f"{pid} arrival {text} s = tick {float(x)} at {tps} ticks/s delivered in tick {got}, allowed {sorted(ok)}")
    # file order among pipelines delivered in the same tick
    idx = [int(pid[1:]) for pid in order]
    for a, b in zip(range(len(order)), range(1, len(order))):
        if seen[order[a]] == seen[order[b]] and idx[a] > idx[b]:
            P("C13:file-order", f"{order[a]} delivered before {order[b]} in tick {seen[order[a]]}")
            break
    return known


def csv_of(arrivals, idstyle="p"):
    rows = [HEADER]
    for i, a in enumerate(arrivals):
        pid = ID_STYLES[idstyle].format(i)
        if "," in pid:
            pid = '"' + pid + '"'
        rows.append(f"{pid},{a},BATCH_PIPELINE,op1,,1,const,,1\n")
    return "".join(rows)


# ----------------------------------------------------------------------------- (b) generated traces

def dec(fr):
    """exact decimal string of a Fraction whose denominator divides a power of ten, else None"""
    n, d = fr.numerator, fr.denominator
    for k in range(0, 31):
        if (10 ** k) % d == 0:
            s = str(n * (10 ** k // d)).rjust(k + 1, "0")
            return (s[:-k] + "." + s[-k:]) if k else s
    return None


@st.composite
def trace_case(draw, tier):
    tps = draw(st.sampled_from([10, 100, 1, 2, 3, 5, 7, 20, 50, 1000, 10000, 100000]) | st.integers(1, 100000))
    span = draw(st.sampled_from([50, 300, 2000, 10 ** 4] if tier == "quick" else [300, 10 ** 4, 10 ** 5, 10 ** 6]))
    n = draw(st.integers(1, 25))
    ks = sorted(draw(st.lists(st.integers(0, span), min_size=n, max_size=n)))
    arrivals = []
    for k in ks:
        style = draw(st.sampled_from(["dec", "mul", "div", "off", "off", "dup", "int", "exp", "tiny_above", "tiny_below", "near_pair"]))
        if style == "dup" and arrivals:
            arrivals.append(arrivals[-1])
            continue
        if style == "near_pair":
            # two distinct arrivals a hair apart, the first on a tick boundary: they belong to different ticks
            a = k / tps
            b = a * (1 + draw(st.sampled_from([5e-10, 1e-11, 2e-9]))) if a > 0 else 1e-9 / tps
            arrivals.append(repr(a))
            arrivals.append(repr(b))
            continue
        if style == "dec":
            s = dec(F(k, tps)) or repr(k / tps)
        elif style == "mul":
            s = repr(k * (1.0 / tps))
        elif style == "div":
            s = repr(k / tps)
        elif style == "off":
            f = draw(st.sampled_from([0.001, 0.25, 0.5, 0.9, 0.999]))
            s = repr((k + f) / tps)
        elif style == "int":
            s = str(k // tps)
        elif style == "exp":
            s = "%.6e" % (k / tps)
        elif style == "tiny_above":
            s = repr((k + 3e-5) / tps)
        else:
            s = repr(max(k - 3e-5, 0) / tps)
        arrivals.append(s)
    arrivals.sort(key=lambda a: F(a))
    last = math.ceil(F(arrivals[-1]) * tps)
    nticks = max(last + draw(st.sampled_from([2, 1, 0, -1, 5])), 0)
    case = {"tps": tps, "arrivals": arrivals, "nticks": nticks}
    if draw(st.integers(0, 5)) == 0:
        case["tail"] = draw(st.sampled_from(["inf", "1e300", "Infinity", "1e18"]))      # a last pipeline that arrives long after any run
    if draw(st.integers(0, 3)) == 0:
        case["idstyle"] = draw(st.sampled_from(sorted(ID_STYLES)))
    if draw(st.integers(0, 24)) == 0:
        # a fine-grained trace replayed at a coarse tick rate: far more than a thousand distinct arrival times in one tick
        tps = draw(st.sampled_from([1, 2, 1, 4]))
        base = draw(st.integers(0, 3))
        m = draw(st.integers(1100, 2600))
        case = {"tps": tps, "arrivals": [repr((base + j / 4096) / tps) for j in range(m)], "nticks": base + draw(st.sampled_from([3, 2, 1]))}
    return case


@st.composite
def roundtrip_case(draw, tier):
    tps = draw(st.sampled_from([10, 100, 3, 1000, 7, 1, 20, 75, 93, 150, 24]))
    nticks = draw(st.sampled_from([300, 100, 600, 3, 7, 6, 93, 225]))
    a = draw(st.integers(0, 10))
    b = draw(st.integers(0, 10 - a))
    dur = draw(st.sampled_from([nticks / tps + 0.5 / tps, nticks / tps, nticks * (1.0 / tps), float(nticks // tps + 1)]))
    params = {"ticks_per_second": tps, "duration": dur, "random_seed": draw(st.integers(0, 10 ** 6)),
              "waiting_seconds_mean": draw(st.sampled_from([1.0, 0.3, 2.5, 0.7, 5.0, 0.1 / tps, 0.1 / tps])) * draw(st.sampled_from([1, 10 / tps if tps > 10 else 1])),
              "num_pipelines": draw(st.integers(1, 3)), "num_operators": draw(st.integers(1, 4)),
              "cpu_io_ratio": draw(st.sampled_from([0.5, 0.0, 1.0])),
              "interactive_prob": a / 10, "query_prob": b / 10, "batch_prob": (10 - a - b) / 10}
    return {"roundtrip": params}


def strategy(tier):
    return st.one_of(trace_case(tier), trace_case(tier), roundtrip_case(tier))


def fingerprint(p):
    ops = list(p.values.node_lookup.values())
    return (p.priority.name, tuple((tuple(ops.index(q) for q in o.parents),
                                    tuple((s.baseline_cpu_seconds, s.memory_gb, s.storage_read_gb) for s in o.get_segments()))
                                   for o in ops))


_SPY = {"registered": False, "seen": None}


def spy_run(params):
    """(tick, fingerprint) of every pipeline run_simulator(params) hands to its scheduler when no workload is passed"""
    import eudoxia.simulator as sim
    from eudoxia.scheduler.decorators import register_scheduler_init, register_scheduler, INIT_ALGOS, SCHEDULING_ALGOS
    key = "verif-spy"
    if not _SPY["registered"]:
        INIT_ALGOS.pop(key, None)
        SCHEDULING_ALGOS.pop(key, None)

        @register_scheduler_init(key=key)
        def init(s):
            s.t = -1
            _SPY["seen"] = []

        @register_scheduler(key=key)
        def algo(s, results, pipelines):
            s.t += 1
            for p in pipelines:
                _SPY["seen"].append((s.t, fingerprint(p)))
            return [], []
        _SPY["registered"] = True
    _SPY["seen"] = None
    sim.run_simulator({**params, "scheduler_algo": key})
    return _SPY["seen"]


def run_roundtrip(params, out, P):
    import contextlib
    from eudoxia.simulator import parse_args_with_defaults
    from eudoxia.workload import WorkloadGenerator
    from eudoxia.workload.csv_io import CSVWorkloadReader
    from eudoxia.__main__ import gentrace_command
    full = parse_args_with_defaults(dict(params))
    tps = full["ticks_per_second"]
    nticks = int(full["duration"] * tps)
    # direct run of the generator (what `run` simulates)
    gen = WorkloadGenerator(**full)
    direct = []
    for t in range(nticks):
        for p in gen.run_one_tick():
            direct.append((t, fingerprint(p)))
    # gentrace -> file -> reader (what `gentrace` + `run -w` simulate)
    d = os.path.join(os.environ.get("VERIF_HOME", "."), ".work", f"c13-{os.getpid()}")
    os.makedirs(d, exist_ok=True)
    pf, of = os.path.join(d, "params.toml"), os.path.join(d, "trace.csv")
    try:
        with open(pf, "w") as f:
            for k, v in params.items():
                f.write(f"{k} = {v!r}\n" if not isinstance(v, bool) else f"{k} = {'true' if v else 'false'}\n")
        # the output file already exists and holds an older, longer trace: --force replaces it
        with open(of, "w") as f:
            f.write(HEADER + "".join(f"old{i},{i * 0.5},BATCH_PIPELINE,op1,,1,const,,1\n" for i in range(400)))
        with contextlib.redirect_stdout(io.StringIO()):
            gentrace_command(pf, of, force=True)
        text = open(of).read()
    finally:
        for x in (pf, of):
            if os.path.exists(x):
                os.remove(x)
    try:
        with io.StringIO(text) as fh:
            wl = CSVWorkloadReader(fh).get_workload(tps)
            replayed = []
            for t in range(nticks):
                for p in wl.run_one_tick():
                    replayed.append((t, fingerprint(p)))
    except Exception as e:
        P("C13:roundtrip-raised", f"replaying the file written by gentrace raised {type(e).__name__}: {e}")
        return len({t for t, _ in direct})
    out.extra_evals = len(direct)
    events = len({t for t, _ in direct})
    # what `run` really simulates: run_simulator(params) with its built-in workload, seen by a scheduler that only watches
    seen = spy_run(params)
    if seen is not None and seen != direct:
        k = next((i for i, (a, b) in enumerate(zip(seen, direct)) if a != b), min(len(seen), len(direct)))
        P("C13:run-differs-from-generator", f"run_simulator(params) delivered {len(seen)} pipelines to its scheduler, the workload generator built from the same "
          f"parameters produces {len(direct)}; first difference at #{k}: {seen[k][0] if k < len(seen) else None} vs tick {direct[k][0] if k < len(direct) else None}")
        return events
    if [f for _, f in direct] != [f for _, f in replayed[:len(direct)]] or len(replayed) > len(direct):
        # a late final pipeline may be missing from the replay (known finding), anything else is a violation
        if len(replayed) < len(direct) and [f for _, f in direct[:len(replayed)]] == [f for _, f in replayed]:
            pass
        else:
            P("C13:roundtrip-pipelines", f"generator produced {len(direct)} pipelines, the replayed trace {len(replayed)}; first difference at index "
              f"{next((i for i, (a, b) in enumerate(zip(direct, replayed)) if a[1] != b[1]), min(len(direct), len(replayed)))}")
            return events
    for i, (t, f) in enumerate(direct):
        if i >= len(replayed):
            rt = None
        else:
            rt = replayed[i][0]
        if rt == t:
            continue
        text_arrival = repr(t * (1.0 / tps))
        if (rt == t + 1 or (rt is None and t == nticks - 1)) and float(text_arrival) / (1.0 / tps) > t:
            P("C13:late", f"gentrace wrote tick {t} as {text_arrival} s; replay at {tps} ticks/s delivers it in tick {rt}", known="late-on-grid")
        else:
            P("C13:roundtrip-tick", f"pipeline #{i} produced by the generator in tick {t} is replayed in tick {rt}")
            break
    return events


def fuzz(tier, seed, shard, nshards):
    """coverage-guided campaign (atheris / libFuzzer) over the CSV grammar with the C13 oracle inside the target"""
    from verif.fuzz.driver import campaign
    return campaign("C13", tier, seed, shard, nshards)


def run_case(spec):
    out = Outcome()
    if "fuzz_bytes_hex" in spec:
        from verif.fuzz import driver
        return driver.replay(spec, out)

    cnt = {"known": 0, "other": 0}

    def P(key, msg, known=None):
        which = "known" if known else "other"
        cnt[which] += 1
        if cnt[which] <= 3:
            out.problem(key, msg, known)

    if "roundtrip" in spec:
        out.label("roundtrip")
        events = run_roundtrip(spec["roundtrip"], out, P)
        out.nontrivial = events >= 3
        if events >= 3:
            out.label("roundtrip_3plus_events")
        return out
    if "grid" in spec:
        tps, style, kmax = spec["grid"]
        arrivals = [repr(k * (1.0 / tps)) if style == "mul" else repr(k / tps) for k in range(kmax + 1)]
        delivered = replay(csv_of(arrivals), tps, kmax + 2)
        judge(arrivals, tps, kmax + 2, delivered, P)
        out.nontrivial = True
        return out
    out.label("trace")
    tps, arrivals, nticks = spec["tps"], spec["arrivals"], spec["nticks"]
    idstyle = spec.get("idstyle", "p")
    if idstyle != "p":
        out.label("ids_spelled_" + idstyle)
    if len(arrivals) > 1000:
        out.label("dense_trace_1000plus")
    text = csv_of(arrivals, idstyle)
    if spec.get("tail"):
        out.label("far_future_last_arrival")
        text += f"zz-last,{spec['tail']},BATCH_PIPELINE,op1,,1,const,,1\n"
    try:
        delivered = replay(text, tps, nticks)
    except Exception as e:
        P("C13:replay-raised", f"{type(e).__name__}: {e}")
        return out
    if spec.get("tail"):
        if any(pid == "zz-last" for _, pid in delivered):
            P("C13:early", f"the pipeline arriving at {spec['tail']} s was delivered within {nticks} ticks")
        delivered = [(t, pid) for t, pid in delivered if pid != "zz-last"]
    out.extra_evals = nticks
    judge(arrivals, tps, nticks, delivered, P, idstyle)
    ticks = [math.ceil(F(a) * tps) for a in arrivals]
    two = len(ticks) != len(set(ticks))
    off = any((F(a) * tps).denominator != 1 for a in arrivals)
    if two:
        out.label("two_in_one_tick")
    if off:
        out.label("off_grid")
    if two and off:
        out.label("two_in_one_tick_and_off_grid")
    if any(math.ceil(F(a) * tps) > nticks - 1 for a in arrivals):
        out.label("arrival_after_end")
    if any(o.known for o in out.problems):
        out.label("known_late_on_grid")
    out.nontrivial = two and off
    return out


# ----------------------------------------------------------------------------- (a) exhaustive grid

def grid(tier, seed, shard, nshards):
    kmax = 4000 if tier == "quick" else 20000
    st_ = Stats()
    viol = None
    jobs = [(tps, style) for tps in TPS12 for style in ("mul", "div")]
    from verif.runner import suppressed_keys
    supp = suppressed_keys(ID)
    for j, (tps, style) in enumerate(jobs):
        if j % nshards != shard:
            continue
        spec = {"grid": [tps, style, kmax]}
        out = run_case(spec)
        st_.evaluations += kmax + 1
        st_.labels["grid_points"] += kmax + 1
        h = spec_hash(spec)
        st_.nontrivial.add(h)
        n_known = sum(1 for p in out.problems if p.known)
        arrivals_diff = 0
        for k in range(kmax + 1):
            v = (k * (1.0 / tps)) if style == "mul" else (k / tps)
            if v / (1.0 / tps) != k:
                arrivals_diff += 1
        st_.labels["grid_points_where_float_tick_differs"] += arrivals_diff
        for p in out.problems:
            if p.known and p.known in supp:
                st_.known_hits[p.known] += 1
            elif viol is None:
                viol = {"spec": spec, "problem": p.to_json()}
    res = {"shard": shard, "stats": st_.to_json(), "violation": viol, "harness": None}
    res["stats"]["exhaustive"] = {"part": "arrival-grid", "cases": st_.evaluations,
                                  "what": f"every k <= {kmax} x {{repr(k*(1/tps)), repr(k/tps)}} x 12 tick rates"}
    return res
