"""Container trace predictor (DESIGN §4.2): a nondeterministic model walked along the observed
history.  From operator specs, CPU/RAM allocation and tick rate it knows, for every tick, the
memory the container must hold, the operator states, and when it succeeds or is OOM-killed.
Where a float-computed quantity lies within rounding of a tick or limit boundary both sides
are kept as candidates; an observation is accepted iff at least one candidate explains it.
"""
import itertools
from fractions import Fraction as F

from . import ticks as T


def operator_options(segs, cpus, tps, cap=64):
    """All allowed per-tick demand lists of one operator: list of tuples of (mem, computed)."""
    per_seg = []
    for sg in segs:
        ios = T.io_ticks(sg["read"], tps)
        cps = T.cpu_ticks(sg["law"], cpus, sg["cpu"], tps)
        per_seg.append(list(itertools.product(ios, cps)))
    n = 1
    for o in per_seg:
        n *= len(o)
    if n > cap:
        return None
    out = []
    seen = set()
    for combo in itertools.product(*per_seg):
        st = [list(c) for c in combo]
        if sum(a + b for a, b in st) == 0:
            st[-1][1] = 1          # an operator occupies at least one tick (a CPU-phase tick of its last segment)
        plan = []
        for (io, cp), sg in zip(st, segs):
            fixed = sg["mem"] is not None
            for i in range(io):
                if fixed:
                    plan.append((F(sg["mem"]), False))
                else:
                    plan.append((F(i + 1) * T.DISK_GB_PER_SEC / tps, True))
            peak = F(sg["mem"]) if fixed else F(sg["read"])
            for i in range(cp):
                plan.append((peak, False))
        key = tuple(plan)
        if key not in seen:
            seen.add(key)
            out.append(key)
    return out


class Matcher:
    """Candidate set over (operator index, chosen plan, position)."""

    def __init__(self, ops, cpus, ram, tps):
        self.ops = ops
        self.ram = F(ram)
        self.n = len(ops)
        self.options = [operator_options(segs, cpus, tps) for segs in ops]
        self.too_ambiguous = any(o is None for o in self.options)
        self.ambiguous = False
        if not self.too_ambiguous:
            self.ambiguous = any(len(o) > 1 for o in self.options)
            self.cands = {(0, pi, 0) for pi in range(len(self.options[0]))}
        self.done = False

    def max_ticks(self):
        return sum(max(len(p) for p in o) for o in self.options)

    def min_ticks(self):
        return sum(min(len(p) for p in o) for o in self.options)

    def predictions(self):
        """For every live candidate: list of (mem, states, terminal, next_candidate)."""
        out = []
        for (oi, pi, k) in self.cands:
            plan = self.options[oi][pi]
            mem, computed = plan[k]
            over = T.exceeds(mem, self.ram, computed)
            states_run = ["completed"] * oi + ["running"] + ["assigned"] * (self.n - oi - 1)
            if over is True or over is None:
                st = ["completed"] * oi + ["failed"] * (self.n - oi)
                out.append((F(0), tuple(st), "oom", None))
            if over is False or over is None:
                last = (k == len(plan) - 1)
                if last:
                    states_run[oi] = "completed"
                    if oi == self.n - 1:
                        out.append((F(0), tuple(states_run), "ok", None))
                    else:
                        for npi in range(len(self.options[oi + 1])):
                            out.append((mem, tuple(states_run), None, (oi + 1, npi, 0)))
                else:
                    out.append((mem, tuple(states_run), None, (oi, pi, k + 1)))
        return out

    def step(self, mem, states, terminal):
        """Feed one observed tick. Returns None if explained, else a description."""
        preds = self.predictions()
        if len({(p[1], p[2]) for p in preds}) > 1:
            self.ambiguous = True
        nxt = set()
        ok = False
        for pm, ps, pt, nc in preds:
            if ps != tuple(states) or pt != terminal:
                continue
            if abs(float(pm) - mem) > 1e-9 * max(1.0, abs(mem)):
                continue
            ok = True
            if nc is not None:
                nxt.add(nc)
        if not ok:
            exp = sorted({(float(p[0]), p[1], p[2]) for p in preds})[:4]
            return f"observed mem={mem!r} states={list(states)} terminal={terminal}; allowed {exp}"
        self.cands = nxt
        if terminal:
            self.done = True
        return None
