"""ModelPool (DESIGN §4.3): an independent ledger / container / operator-state model of one executor.

Written from the README and the property statements; it imports nothing from eudoxia.  Quantities
are exact Fractions.  Where the implementation's float arithmetic may legitimately fall on either
side of a boundary the model *validates* the real outcome and adopts it (never predicts it).
"""
from fractions import Fraction as F

from . import ticks as T
from .container import operator_options

TAU = F(1, 10 ** 6)      # GB: admission / capacity band for pools up to 10^6 GB


def _dyadic(x):
    return x >= 0 and x < 2 ** 30 and (x * 2 ** 20).denominator == 1


def tau_for(cap_ram):
    """band within which float sums of the implementation may fall on either side of a limit: 1e-6 GB, or 1e-12 of the
    pool's capacity for very large pools (one ulp of 2e9 GB is already 2.4e-7 GB)"""
    return max(TAU, F(cap_ram) / 10 ** 12)


class MPipe:
    def __init__(self, name, nops):
        self.name = name
        self.states = ["pending"] * nops

    def assignable_from(self):
        """index of the first operator that can be handed to a container next (chain pipelines), or None"""
        for i, s in enumerate(self.states):
            if s == "completed":
                continue
            return i if s in ("pending", "failed") else None
        return None


class MContainer:
    def __init__(self, cid, pool, pipe, op_idx, cpu, ram, plans, tps, extra=None):
        self.cid = cid
        self.pool = pool
        self.pipe = pipe
        self.op_idx = list(op_idx)
        # (pipeline, operator index) per position; `extra` = operators of OTHER pipelines packed behind the first one's
        self.refs = [(pipe, i) for i in self.op_idx] + list(extra or [])
        self.cpu = cpu
        self.ram = F(ram)
        self.plans = plans          # per operator: tuple of (mem, computed)
        self.cur = 0
        self.k = 0
        self.can_suspend = False
        self.usage = F(0)
        self.where = "active"
        self.sus_allowed = None
        self.sus_elapsed = 0
        self.ticks = 0
        self.result = None          # None | 'ok' | 'oom'
        self.tps = tps


class ModelPool:
    def __init__(self, pool_id, cpus, ram, overcommit, multi, tps):
        self.pool_id = pool_id
        self.cap_cpu = cpus
        self.cap_ram = F(ram)
        self.free_cpu = cpus
        self.free_ram = F(ram)
        self.tau = tau_for(ram)
        # True as long as every usage this pool has ever seen is a given (not interpolated) multiple of 2**-20 GB below
        # 2**30: then the implementation's float sums and differences are exact and usage == capacity is decided exactly
        self.exact = _dyadic(F(ram))
        self.overcommit = overcommit
        self.multi = multi
        self.tps = tps
        self.active = []
        self.suspending = []
        self.suspended = []
        self.n_accepted = 0
        self.n_ok = 0
        self.n_failed = 0

    # ---- judgements before the tick -------------------------------------------------
    def find_active(self, cid):
        for c in self.active:
            if c.cid == cid:
                return c
        return None

    def judge_suspensions(self, cids):
        """'accept' iff every named container is active here and just finished a non-final operator."""
        seen = set()
        for cid in cids:
            c = self.find_active(cid)
            if c is None or not c.can_suspend or cid in seen:
                return "reject"
            seen.add(cid)
        return "accept"

    def judge_batch(self, batch):
        """batch: list of (cpu, ram, nops, ram_is_reported_free).  Returns (verdict, tag, why) with verdict 'accept' | 'reject' | 'either'
        (either = the RAM sum lies within rounding of the free RAM)."""
        if not batch:
            return ("accept", None, None)
        for cpu, ram, nops, _ in batch:
            if nops < 1 or not cpu > 0 or not F(ram) > 0:
                return ("reject", "C08", f"assignment with cpu={cpu} ram={ram} nops={nops}")
            if not self.multi and nops != 1:
                return ("reject", "C08", f"{nops} operators in one container although multi-operator containers are off")
        if sum(b[0] for b in batch) > self.free_cpu:
            return ("reject", "C03", f"batch {batch} oversells the {self.free_cpu} free CPUs of pool {self.pool_id}")
        if not self.overcommit:
            tot = sum(F(b[1]) for b in batch)
            if tot > self.free_ram + self.tau:
                return ("reject", "C03", f"batch {batch} oversells the {float(self.free_ram)} GB free RAM of pool {self.pool_id}")
            if tot > self.free_ram - self.tau:
                if len(batch) == 1 and batch[0][3]:
                    return ("accept", None, None)   # one assignment taking exactly the reported free RAM (bit-identical)
                return ("either", None, None)
        return ("accept", None, None)

    # ---- one tick --------------------------------------------------------------------
    def tick(self, sus_cids, new_containers, real_failed, real_sus_done, problems):
        """Advance one executor tick.  real_failed: ids with a failed result this tick (for adoption of
        boundary decisions and validation of pool-level victims); real_sus_done: ids the implementation
        moved to 'suspended' this tick.  Returns dict cid -> 'ok' | 'oom' of results of this tick."""
        # 1. suspensions
        for cid in sus_cids:
            c = self.find_active(cid)
            self.active.remove(c)
            self.suspending.append(c)
            c.where = "suspending"
            c.sus_allowed = T.suspend_ticks(c.ram, self.tps)
            c.sus_elapsed = 0
            c.can_suspend = False
            c.usage_at_suspend = c.usage
            for p_, i in c.refs[c.cur:]:
                p_.states[i] = "suspending"
        # 2. assignments (already judged acceptable)
        for c in new_containers:
            self.free_cpu -= c.cpu
            self.free_ram -= c.ram
            self.active.append(c)
            self.n_accepted += 1
        # 3. suspending containers make write-out progress; allocation freed when done
        for c in list(self.suspending):
            c.sus_elapsed += 1
            lo, hi = min(c.sus_allowed), max(c.sus_allowed)
            done_real = c.cid in real_sus_done
            if c.sus_elapsed < lo:
                done = False
            elif c.sus_elapsed >= hi:
                done = True
            else:
                done = done_real          # inside the boundary set: adopt
            if done:
                self.suspending.remove(c)
                self.suspended.append(c)
                c.where = "suspended"
                self.free_cpu += c.cpu
                self.free_ram += c.ram
                for p_, i in c.refs[c.cur:]:
                    p_.states[i] = "pending"
        # 4. active containers execute one tick
        results = {}
        indiv = set()
        for c in self.active:
            c.ticks += 1
            c.can_suspend = False
            p_cur, i = c.refs[c.cur]
            if c.k == 0:
                p_cur.states[i] = "running"
            mem, computed = c.plans[c.cur][c.k]
            if computed or not _dyadic(mem):
                self.exact = False      # enters the implementation's running float total even if the container is killed at once
            over = T.exceeds(mem, c.ram, computed)
            if over is None:
                over = c.cid in real_failed
                c.ambiguous_limit = True
            if over:
                c.usage = F(0)
                for p_, j in c.refs[c.cur:]:
                    p_.states[j] = "failed"
                c.result = "oom"
                results[c.cid] = "oom"
                indiv.add(c.cid)
                continue
            c.usage = mem
            if c.k == len(c.plans[c.cur]) - 1:
                p_cur.states[i] = "completed"
                c.cur += 1
                c.k = 0
                if c.cur == len(c.refs):
                    c.result = "ok"
                    c.usage = F(0)
                    results[c.cid] = "ok"
                else:
                    c.can_suspend = True
            else:
                c.k += 1
        # 5. pool-level OOM: validate the implementation's victim set, then adopt it
        alive = [c for c in self.active if c.result is None]
        total = sum((c.usage for c in alive), F(0))
        self.last_total_before_pool_kill = total
        victims = [c for c in alive if c.cid in real_failed]
        self.last_victims = [c.cid for c in victims]
        tau = F(0) if self.exact else self.tau
        self.last_exact_fit = self.exact and total == self.cap_ram and len(alive) > 1
        self.last_crossing = total > self.cap_ram + tau
        elig = [c for c in alive if c.usage > 0]
        by_usage = sorted(elig, key=lambda c: (-c.usage, c.cid))
        by_score = sorted(elig, key=lambda c: (-(c.usage * c.usage / c.ram), c.cid))
        self.last_eligible = len(elig)
        self.last_order_differs = [c.cid for c in by_usage] != [c.cid for c in by_score]
        self.last_tie = len({c.usage * c.usage / c.ram for c in elig}) < len(elig)
        if not victims:
            if total > self.cap_ram + tau:
                problems.append(("C11:kill-missing", f"pool {self.pool_id}: usage {float(total)} GB > capacity {float(self.cap_ram)} GB and nothing killed"))
        else:
            def score(c):
                return c.usage * c.usage / c.ram
            if not total > self.cap_ram - tau:
                problems.append(("C04:unjustified-kill", f"pool {self.pool_id}: containers {[c.cid for c in victims]} killed although every demand fits its allocation and pool usage {float(total)} <= capacity {float(self.cap_ram)}"))
            for v in victims:
                if not v.usage > 0:
                    problems.append(("C11:zero-usage-victim", f"pool {self.pool_id}: {v.cid} uses no memory and was killed"))
            vs = sorted(victims, key=score)
            lowest = vs[0]
            for s in alive:
                if s in victims or not s.usage > 0:
                    continue
                if score(s) > score(lowest) * (1 + F(1, 10 ** 9)) + F(1, 10 ** 12):
                    problems.append(("C11:survivor-higher-score", f"pool {self.pool_id}: {s.cid} (score {float(score(s))}) survives while {lowest.cid} (score {float(score(lowest))}) was killed"))
                    break
            # minimal: the victim killed last (one of the lowest scorers; among equal scores any order is allowed) was still
            # needed, i.e. with all other victims gone the usage did not fit yet
            tied_lowest = [v for v in victims if score(v) <= score(lowest) * (1 + F(1, 10 ** 9)) + F(1, 10 ** 12)]
            all_victims = sum((v.usage for v in victims), F(0))
            rest_before_last = max(total - (all_victims - v.usage) for v in tied_lowest)
            if not rest_before_last > self.cap_ram - tau:
                problems.append(("C11:not-minimal", f"pool {self.pool_id}: killing {[v.cid for v in tied_lowest]} was not needed: usage without the other victims {float(rest_before_last)} <= capacity {float(self.cap_ram)}"))
            remaining = total - sum((v.usage for v in victims), F(0))
            if remaining > self.cap_ram + tau:
                problems.append(("C11:insufficient", f"pool {self.pool_id}: usage after kills {float(remaining)} still above capacity {float(self.cap_ram)}"))
            for v in victims:
                v.usage = F(0)
                for p_, j in v.refs[v.cur:]:
                    p_.states[j] = "failed"
                v.result = "oom"
                v.can_suspend = False
                results[v.cid] = "oom"
        # 6. finished containers leave and return their allocation
        for c in list(self.active):
            if c.result is not None:
                self.active.remove(c)
                c.where = "done"
                self.free_cpu += c.cpu
                self.free_ram += c.ram
                if c.result == "ok":
                    self.n_ok += 1
                else:
                    self.n_failed += 1
        self.last_indiv = indiv
        return results

    def usage_sum(self):
        return sum((c.usage for c in self.active), F(0))


def make_plans(ops_specs, cpus, tps):
    """Per-operator demand plans; None if any operator has more than one allowed plan (boundary)."""
    plans = []
    for segs in ops_specs:
        o = operator_options(segs, cpus, tps)
        if o is None or len(o) != 1:
            return None
        plans.append(o[0])
    return plans
