"""Exact-rational phase lengths with boundary sets (DESIGN §4.1). No import of eudoxia logic.

The scaling laws const / linear3 / sqrt are documented in the README; linear7, log (1 + ln n),
squared (n^2) and exp (2^min(n,4)) are transcribed from the pinned commit (trusted base).
"""
import math
from fractions import Fraction as F

LAWS = ["const", "log", "sqrt", "linear3", "linear7", "squared", "exp"]
DISK_GB_PER_SEC = 20
REL = F(1, 10 ** 9)


def speedup(law, cpus):
    """cpu_time = baseline / speedup. Returns (value, exact?)."""
    if law == "const":
        return F(1), True
    if law == "linear3":
        return F(min(cpus, 3)), True
    if law == "linear7":
        return F(min(cpus, 7)), True
    if law == "squared":
        return F(cpus * cpus), True
    if law == "exp":
        return F(2 ** min(cpus, 4)), True
    if law == "sqrt":
        return math.sqrt(cpus), False
    if law == "log":
        return math.log(cpus) + 1, False
    raise ValueError(law)


def cpu_seconds(law, cpus, baseline):
    s, exact = speedup(law, cpus)
    if exact:
        return F(baseline) / s, True
    return F(float(baseline) / s), False


def tickset(x, exact=True):
    """Allowed values of int(x) when x was computed in floats: floor on either side of a
    boundary that lies within 1e-9 relative (1e-8 for irrational laws)."""
    x = F(x)
    eps = REL * max(1, abs(x))
    if not exact:
        eps *= 10
    lo = math.floor(x - eps)
    hi = math.floor(x + eps)
    return sorted({max(lo, 0), max(hi, 0)})


def io_ticks(read_gb, tps):
    return tickset(F(read_gb) / DISK_GB_PER_SEC * tps, True)


def cpu_ticks(law, cpus, baseline, tps):
    secs, exact = cpu_seconds(law, cpus, baseline)
    return tickset(secs * tps, exact)


def suspend_ticks(ram, tps):
    """max(1, floor(ram/20*tps)) with its boundary set."""
    return sorted({max(1, v) for v in tickset(F(ram) / DISK_GB_PER_SEC * tps, True)})


def exceeds(value, limit, computed):
    """Does `value > limit` hold in the implementation?  True / False / None (either)."""
    value, limit = F(value), F(limit)
    if not computed:
        return value > limit
    band = REL * max(abs(limit), F(1, 10 ** 6))
    if value > limit + band:
        return True
    if value < limit - band:
        return False
    return None
