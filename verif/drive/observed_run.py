"""run_simulator under observation, through public seams only (DESIGN §3):
recording subclasses of Executor and Scheduler are substituted in eudoxia.simulator's namespace for
the duration of one run, the workload is wrapped, and PipelineRuntimeStatus.transition is wrapped to
log every state-change request and its outcome.  Nothing in /repo is modified.
"""
import contextlib

_CTX = None


class ContRec:
    __slots__ = ("cid", "cpu", "ram", "prio", "ops", "can_suspend", "mem", "pool")

    def __init__(self, c, pool):
        self.cid = c.container_id
        self.cpu = c.assignment.cpu
        self.ram = c.assignment.ram
        self.prio = c.priority.value
        self.ops = [(o.pipeline.pipeline_id, o._vidx) for o in c.operators]
        self.can_suspend = c.can_suspend_container()
        self.mem = c.get_current_memory_usage()
        self.pool = pool


class PoolSnap:
    __slots__ = ("free_cpu", "free_ram", "cap_cpu", "cap_ram", "consumed", "active", "suspending", "suspended")

    def __init__(self, p):
        self.free_cpu = p.avail_cpu_pool
        self.free_ram = p.avail_ram_pool
        self.cap_cpu = p.max_cpu_pool
        self.cap_ram = p.max_ram_pool
        self.consumed = p.get_consumed_ram_gb()
        self.active = [ContRec(c, p.pool_id) for c in p.active_containers]
        self.suspending = [ContRec(c, p.pool_id) for c in p.suspending_containers]
        self.suspended = [c.container_id for c in p.suspended_containers]


class Snapshot:
    __slots__ = ("pools", "states")

    def __init__(self, executor, pipelines):
        self.pools = [PoolSnap(p) for p in executor.pools]
        self.states = {pid: [s.value for s in _states_in_tag_order(p)] for pid, p in pipelines.items()}


def _states_in_tag_order(p):
    rs = p.runtime_status()
    ops = sorted(rs.operator_states.keys(), key=lambda o: o._vidx)
    return [rs.operator_states[o] for o in ops]


class AsgRec:
    __slots__ = ("pool", "cpu", "ram", "prio", "pid", "ops")

    def __init__(self, a):
        self.pool = a.pool_id
        self.cpu = a.cpu
        self.ram = a.ram
        self.prio = a.priority.value if a.priority is not None else None
        self.pid = a.pipeline_id
        self.ops = [(o.pipeline.pipeline_id, o._vidx) for o in a.ops]


class ResRec:
    __slots__ = ("cid", "pool", "cpu", "ram", "prio", "failed", "error", "ops", "states")

    def __init__(self, r):
        self.cid = r.container_id
        self.pool = r.pool_id
        self.cpu = r.cpu
        self.ram = r.ram
        self.prio = r.priority.value
        self.failed = r.failed()
        self.error = r.error
        self.ops = [(o.pipeline.pipeline_id, o._vidx) for o in r.ops]
        self.states = [o.state().value for o in r.ops]


class TickRec:
    __slots__ = ("t", "arrivals", "pre", "sus", "asg", "post_sched", "results", "post_exec", "sched_called",
                 "sched_results_in", "sched_pipelines_in")

    def __init__(self, t):
        self.t = t
        self.arrivals = []
        self.pre = None
        self.sus = []
        self.asg = []
        self.post_sched = None
        self.results = None
        self.post_exec = None


class Record:
    def __init__(self):
        self.ticks = []
        self.translog = []       # (tick, phase, pid, vidx, old, new, ok)
        self.pipelines = {}      # pid -> Pipeline (arrived so far)
        self.arrival_tick = {}
        self.arrival_order = []  # pids in delivery order
        self.exception = None
        self.exception_tick = None
        self.stats = None
        self.executor = None
        self.scheduler = None
        self.phase = "init"
        self.cur = None
        self.dup_pipeline_ids = []

    def start_tick(self):
        self.cur = TickRec(len(self.ticks))
        self.ticks.append(self.cur)
        self.phase = "workload"


def tag_pipeline(p):
    """number the operators of a pipeline in insertion order (stable names for logs): op._vidx"""
    for i, o in enumerate(p.values.node_lookup.values()):
        o._vidx = i


class ObservedWorkload:
    """Wraps any Workload; records what is delivered at each tick."""

    def __init__(self, inner, rec):
        self.inner = inner
        self.rec = rec

    def run_one_tick(self):
        rec = self.rec
        rec.start_tick()
        ps = self.inner.run_one_tick()
        for p in ps:
            tag_pipeline(p)
            if p.pipeline_id in rec.pipelines:
                rec.dup_pipeline_ids.append(p.pipeline_id)
            rec.pipelines[p.pipeline_id] = p
            rec.arrival_tick[p.pipeline_id] = rec.cur.t
            rec.arrival_order.append(p.pipeline_id)
            rec.cur.arrivals.append(p.pipeline_id)
        rec.phase = "scheduler"
        return ps


@contextlib.contextmanager
def observing(rec):
    """Install the recording seams for one run."""
    global _CTX
    import eudoxia.simulator as sim
    from eudoxia.executor import Executor
    from eudoxia.scheduler import Scheduler
    from eudoxia.workload.runtime_status import PipelineRuntimeStatus

    class RecExecutor(Executor):
        def __init__(self, *a, **k):
            super().__init__(*a, **k)
            rec.executor = self

        def run_one_tick(self, suspensions, assignments):
            rec.phase = "executor"
            try:
                results = super().run_one_tick(suspensions, assignments)
            except Exception:
                rec.exception_tick = rec.cur.t if rec.cur else None
                raise
            rec.cur.results = [ResRec(r) for r in results]
            rec.cur.post_exec = Snapshot(self, rec.pipelines)
            rec.phase = "bookkeeping"
            return results

    class RecScheduler(Scheduler):
        def __init__(self, executor, *a, **k):
            super().__init__(executor, *a, **k)
            rec.scheduler = self

        def run_one_tick(self, results, pipelines):
            rec.cur.pre = Snapshot(self.executor, rec.pipelines)
            try:
                sus, asg = super().run_one_tick(results, pipelines)
            except Exception:
                rec.exception_tick = rec.cur.t
                raise
            rec.cur.sus = [(s.container_id, s.pool_id) for s in sus]
            rec.cur.asg = [AsgRec(a) for a in asg]
            rec.cur.post_sched = Snapshot(self.executor, rec.pipelines)
            return sus, asg

    orig_transition = PipelineRuntimeStatus.transition

    def logged_transition(self, operator, new_state):
        old = self.operator_states.get(operator)
        t = rec.cur.t if rec.cur else -1
        pid = self.pipeline.pipeline_id
        vidx = getattr(operator, "_vidx", None)
        try:
            orig_transition(self, operator, new_state)
        except Exception:
            rec.translog.append((t, rec.phase, pid, vidx, old.value if old else None, new_state.value, False))
            raise
        rec.translog.append((t, rec.phase, pid, vidx, old.value if old else None, new_state.value, True))

    old_ex, old_sc = sim.Executor, sim.Scheduler
    sim.Executor, sim.Scheduler = RecExecutor, RecScheduler
    PipelineRuntimeStatus.transition = logged_transition
    try:
        yield
    finally:
        sim.Executor, sim.Scheduler = old_ex, old_sc
        PipelineRuntimeStatus.transition = orig_transition


def observed_run(params, workload):
    """Runs eudoxia.simulator.run_simulator(params, workload) under observation.  Returns a Record;
    record.exception is the exception the run raised, if any."""
    import eudoxia.simulator as sim
    rec = Record()
    wl = ObservedWorkload(workload, rec)
    with observing(rec):
        try:
            rec.stats = sim.run_simulator(params, workload=wl)
        except Exception as e:
            rec.exception = e
            if rec.exception_tick is None and rec.cur is not None:
                rec.exception_tick = rec.cur.t
    return rec


class ScheduleWorkload:
    """A Workload delivering prepared pipelines at prepared ticks (subclass of the public ABC at use site)."""

    def __init__(self, by_tick):
        self.by_tick = by_tick
        self.t = 0

    def run_one_tick(self):
        ps = self.by_tick.get(self.t, [])
        self.t += 1
        return list(ps)


def build_pipeline(pid, pspec):
    """pspec = {"prio": 1|2|3, "ops": [{"parents": [idx...], "segs": [{"cpu","law","mem","read"}...]}]}"""
    from eudoxia.workload.pipeline import Segment, Pipeline
    from eudoxia.utils import Priority
    p = Pipeline(pid, Priority(pspec["prio"]))
    ops = []
    for o in pspec["ops"]:
        parents = [ops[i] for i in o["parents"]] or None
        op = p.new_operator(parents)
        same = {}
        for sg in o["segs"]:
            key = (sg["cpu"], sg["law"], sg["mem"], sg["read"])
            if key not in same or len(ops) % 2:
                # identical stages of an even-numbered operator are one Segment object added twice
                same[key] = Segment(baseline_cpu_seconds=sg["cpu"], cpu_scaling=sg["law"], memory_gb=sg["mem"], storage_read_gb=sg["read"])
            op.add_segment(same[key])
        ops.append(op)
    tag_pipeline(p)
    return p


def schedule_workload(arrivals):
    """arrivals: list of [tick, pipeline_spec]; pipeline ids p1, p2 ... in list order"""
    by_tick = {}
    for i, (t, pspec) in enumerate(arrivals):
        by_tick.setdefault(t, []).append(build_pipeline(f"p{i + 1}", pspec))
    return ScheduleWorkload(by_tick)
