"""A tape-driven custom scheduler registered through the public decorators (key "verif-tape").
It consumes a list of integers to choose operators, packing, sizes, pools and suspensions, including
deliberately inadmissible moves (children before / without their parents, busy operators, oversized
requests, unknown pools, unsuspendable containers).  Used for the "arbitrary custom decisions" part
of C01 / C02.
"""
KEY = "verif-tape"
_registered = False
_TAPE = {"tape": [0], "pos": 0, "moves": []}


def set_tape(tape, eager=None, probe=None):
    _TAPE["tape"] = list(tape) or [0]
    _TAPE["pos"] = 0
    _TAPE["moves"] = []
    _TAPE["eager"] = eager
    _TAPE["probe"] = probe


def moves():
    return _TAPE["moves"]


def _next(n):
    t = _TAPE["tape"]
    v = t[_TAPE["pos"] % len(t)]
    _TAPE["pos"] += 1
    return v % n if n > 0 else 0


def ensure_registered():
    global _registered
    if _registered:
        return KEY
    from eudoxia.scheduler.decorators import register_scheduler_init, register_scheduler, INIT_ALGOS, SCHEDULING_ALGOS
    INIT_ALGOS.pop(KEY, None)
    SCHEDULING_ALGOS.pop(KEY, None)

    @register_scheduler_init(key=KEY)
    def init(s):
        s.known = []
        s.multi = s.params["multi_operator_containers"]
        s.round = -1
        s.probed = False

    @register_scheduler(key=KEY)
    def sched(s, results, pipelines):
        from eudoxia.executor.assignment import Assignment, Suspend
        from eudoxia.workload.runtime_status import ASSIGNABLE_STATES, OperatorState
        s.known.extend(pipelines)
        if _TAPE.get("eager"):
            # eager policy: suspend every suspendable container, hand every ready operator (with its descendants in
            # listing order) to a new one-CPU container of a fixed size as long as the pool has room
            sus, asg = [], []
            ram = _TAPE["eager"]
            for p_ in s.executor.pools:
                for c in p_.active_containers:
                    if c.can_suspend_container() and _next(3) != 0:
                        sus.append(Suspend(c.container_id, p_.pool_id))
            free = [[p_.avail_cpu_pool, p_.avail_ram_pool] for p_ in s.executor.pools]
            for pl in s.known:
                rs = pl.runtime_status()
                ready = rs.get_ops(ASSIGNABLE_STATES, require_parents_complete=True)
                if not ready:
                    continue
                chosen, have = [], set()
                for op in rs.get_ops(ASSIGNABLE_STATES):
                    if all((q in have) or rs.operator_states[q] == OperatorState.COMPLETED for q in op.parents):
                        chosen.append(op)
                        have.add(op)
                if not s.multi:
                    chosen = chosen[:1]
                for k, (fc, fr) in enumerate(free):
                    if fc >= 1 and fr >= ram:
                        asg.append(Assignment(ops=chosen, cpu=1, ram=ram, priority=pl.priority, pool_id=k, pipeline_id=pl.pipeline_id))
                        free[k][0] -= 1
                        free[k][1] -= ram
                        break
            return sus, asg
        s.round += 1
        if _TAPE.get("probe"):
            # probe policy: admissible work in partial multi-operator containers, suspensions where possible, and from a
            # drawn round on ONE certainly inadmissible decision: an operator one of whose parents is not completed
            # (whatever that parent is doing then: pending, assigned, running, suspending or failed)
            pr = _TAPE["probe"]
            sus, asg = [], []
            free = [[p_.avail_cpu_pool, p_.avail_ram_pool] for p_ in s.executor.pools]

            def place(ops, pl, ram):
                for k, (fc, fr) in enumerate(free):
                    if fc >= 1 and fr >= ram:
                        asg.append(Assignment(ops=ops, cpu=1, ram=ram, priority=pl.priority, pool_id=k, pipeline_id=pl.pipeline_id))
                        free[k][0] -= 1
                        free[k][1] -= ram
                        return True
                return False
            for p_ in s.executor.pools:
                for c in p_.active_containers:
                    if c.can_suspend_container() and _next(2) == 0:
                        sus.append(Suspend(c.container_id, p_.pool_id))
            if s.round >= pr["round"] and not s.probed:
                for pl in s.known:
                    rs = pl.runtime_status()
                    cands = [op for op in rs.get_ops(ASSIGNABLE_STATES)
                             if any(rs.operator_states[q] != OperatorState.COMPLETED for q in op.parents)]
                    if cands:
                        busy = [op for op in cands if any(rs.operator_states[q] not in (OperatorState.COMPLETED, OperatorState.PENDING)
                                                          for q in op.parents)]
                        if busy and _next(4) != 0:
                            cands = busy
                        op = cands[_next(len(cands))]
                        states = sorted({rs.operator_states[q].value for q in op.parents if rs.operator_states[q] != OperatorState.COMPLETED})
                        ndone = sum(1 for q in op.parents if rs.operator_states[q] == OperatorState.COMPLETED)
                        if ndone < pr.get("min_done", 0):
                            continue
                        if place([op], pl, pr["probe_ram"]):
                            s.probed = True
                            _TAPE["moves"].append(("probe", pl.pipeline_id, states, ndone))
                            break
            for pl in s.known:
                rs = pl.runtime_status()
                ready = rs.get_ops(ASSIGNABLE_STATES, require_parents_complete=True)
                if not ready or _next(3) == 0:
                    continue
                chosen, have = [], set()
                for op in rs.get_ops(ASSIGNABLE_STATES):
                    if all((q in have) or rs.operator_states[q] == OperatorState.COMPLETED for q in op.parents):
                        chosen.append(op)
                        have.add(op)
                chosen = chosen[:1] if not s.multi else chosen[:max(1, min(len(chosen), pr["k"]))]
                if any(op in a.ops for a in asg for op in chosen):
                    continue
                place(chosen, pl, pr["ram"])
            return sus, asg
        sus, asg = [], []
        sus_pipeline = None
        # pipelines with a container still being written out (suspended in an earlier round)
        for p_ in s.executor.pools:
            for c in p_.active_containers:
                if any(
                        o.pipeline.runtime_status().operator_states[o] == OperatorState.SUSPENDING for o in c.operators):
                    sus_pipeline = c.operators[0].pipeline
        npools = s.executor.num_pools
        free = [[p.avail_cpu_pool, p.avail_ram_pool] for p in s.executor.pools]
        # suspensions (up to two in one round)
        chosen_c = set()
        for _k in range(2):
            if _next(4) != 0:
                continue
            cands = [(c, p.pool_id) for p in s.executor.pools for c in p.active_containers if c.container_id not in chosen_c]
            if cands:
                mode = _next(5)
                if mode != 0:
                    good = [x for x in cands if x[0].can_suspend_container()]
                    cands = good or cands
                c, pid = cands[_next(len(cands))]
                chosen_c.add(c.container_id)
                sus.append(Suspend(c.container_id, pid))
                _TAPE["moves"].append(("suspend", c.container_id, c.can_suspend_container()))
                sus_pipeline = c.operators[0].pipeline
        # assignments
        for _ in range(_next(4)):
            live = [p for p in s.known if p.runtime_status().get_ops(ASSIGNABLE_STATES)]
            if not live:
                break
            p = live[_next(len(live))]
            mode = _next(12)
            if sus_pipeline is not None and _next(2) == 0 and sus_pipeline in live:
                # work of the pipeline whose container is being suspended in this very round
                p = sus_pipeline
                mode = [6, 7, 11, 11][_next(4)]
            rs = p.runtime_status()
            if mode <= 5:          # safe: ready operators, then their descendants in listing (topological) order
                ready = rs.get_ops(ASSIGNABLE_STATES, require_parents_complete=True)
                if not ready:
                    continue
                if not s.multi or mode <= 1:
                    ops = [ready[_next(len(ready))]]      # any operator the package itself reports as ready
                else:
                    chosen = []
                    have = set()
                    for op in rs.get_ops(ASSIGNABLE_STATES):
                        if all((q in have) or rs.operator_states[q] == OperatorState.COMPLETED for q in op.parents):
                            chosen.append(op)
                            have.add(op)
                    ops = chosen[: 1 + _next(len(chosen))]
                kind = "safe"
            elif mode <= 7:        # any assignable operators in listing order (parents may be busy elsewhere)
                allops = rs.get_ops(ASSIGNABLE_STATES)
                k = 1 if not s.multi else 1 + _next(len(allops))
                start = _next(len(allops))
                ops = allops[start:start + k] or allops[:1]
                kind = "arbitrary"
            elif mode == 8:        # reversed order: children ahead of their parents
                allops = rs.get_ops(ASSIGNABLE_STATES)
                ops = list(reversed(allops))[: (1 if not s.multi else 1 + _next(len(allops)))]
                kind = "reversed"
            elif mode == 11:       # certainly inadmissible: an assignable operator one of whose parents is not completed
                cands = [op for op in rs.get_ops(ASSIGNABLE_STATES)
                         if any(rs.operator_states[q] != OperatorState.COMPLETED for q in op.parents)]
                if not cands:
                    continue
                ops = [cands[_next(len(cands))]]
                kind = "child_of_unfinished_parent"
            elif mode == 9:        # includes a busy / finished operator
                allops = list(rs.operator_states.keys())
                ops = [allops[_next(len(allops))]]
                kind = "anystate"
            else:                  # assignable operators followed by one operator in any state (a stale retry list)
                allops = list(rs.operator_states.keys())
                ok_ops = rs.get_ops(ASSIGNABLE_STATES)
                ops = ok_ops[: 1 + _next(len(ok_ops))] + [allops[_next(len(allops))]]
                kind = "mixed"
            pool = _next(npools)
            if _next(40) == 0:
                pool = npools + _next(2)
            fc, fr = free[pool] if pool < npools else (1, 1.0)
            if fc <= 0 or fr <= 0:
                if _next(10) != 0:
                    continue
            cpu = max(1, 1 + _next(max(int(fc), 1)))
            if cpu > fc and _next(10) != 0:
                cpu = max(1, int(fc))
            frac = [0.1, 0.25, 0.5, 1.0, 1.0][_next(5)]
            ram = max(fr, 0.001) * frac if _next(20) != 0 else fr + 1.0
            _TAPE["moves"].append((kind, p.pipeline_id, [getattr(o, "_vidx", None) for o in ops], cpu, ram, pool))
            a = Assignment(ops=ops, cpu=cpu, ram=ram, priority=p.priority, pool_id=pool, pipeline_id=p.pipeline_id)
            asg.append(a)
            if pool < npools:
                free[pool][0] -= cpu
                free[pool][1] -= ram
        return sus, asg

    _registered = True
    return KEY
