"""Post-hoc monitors over a Record of one observed simulation.  Each appends (key, message) problems;
keys are prefixed with the property they belong to.  They use only what was recorded at the public
seams (snapshots at phase boundaries, decisions, results, the transition log) and their own tables.
"""
import math

TABLE = {
    "pending": {"assigned"},
    "assigned": {"running", "suspending", "failed"},
    "running": {"completed", "failed"},
    "suspending": {"pending"},
    "completed": set(),
    "failed": {"assigned"},
}
ASSIGNABLE = ("pending", "failed")


def parent_map(rec):
    out = {}
    for pid, p in rec.pipelines.items():
        m = {}
        for o in p.values.node_lookup.values():
            m[o._vidx] = [q._vidx for q in o.parents]
        out[pid] = m
    return out


def snapshots(rec):
    for tr in rec.ticks:
        for name in ("pre", "post_sched", "post_exec"):
            s = getattr(tr, name)
            if s is not None:
                yield tr.t, name, s


# ----------------------------------------------------------------------------- C01

def mon_dependencies(rec, P, info):
    parents = parent_map(rec)
    shadow = {}
    started = 0
    for (t, phase, pid, vidx, old, new, ok) in rec.translog:
        if not ok or vidx is None:
            continue
        if new == "running":
            ps = parents.get(pid, {}).get(vidx, [])
            bad = [q for q in ps if shadow.get((pid, q), "pending") != "completed"]
            if bad:
                P("C01:started-before-parent", f"tick {t}: {pid} operator {vidx} set running while parents {bad} are {[shadow.get((pid, q), 'pending') for q in bad]}")
            if ps:
                started += 1
                if len(ps) > 1:
                    info["multi_parent_child_started"] = True
        shadow[(pid, vidx)] = new
    info["children_started"] = started
    # a start request is refused exactly when a parent is unfinished, and the refusal reaches the caller
    shadow2 = {}
    for (t, phase, pid, vidx, old, new, ok) in rec.translog:
        if vidx is None:
            continue
        if new == "running" and old == "assigned":
            ps = parents.get(pid, {}).get(vidx, [])
            unfinished = [q for q in ps if shadow2.get((pid, q), "pending") != "completed"]
            if not ok and not unfinished:
                P("C01:start-refused-although-parents-completed", f"tick {t}: {pid} operator {vidx}")
            if not ok:
                info["bad_start_rejected"] = info.get("bad_start_rejected", 0) + 1
                if rec.exception is None or rec.exception_tick != t:
                    P("C01:refusal-swallowed", f"tick {t}: start of {pid} operator {vidx} was refused but the run continued (exception {rec.exception!r} at tick {rec.exception_tick})")
        if ok:
            shadow2[(pid, vidx)] = new
    for t, name, s in snapshots(rec):
        for pid, states in s.states.items():
            pm = parents.get(pid, {})
            for i, st in enumerate(states):
                if st in ("running", "completed"):
                    bad = [q for q in pm.get(i, []) if states[q] != "completed"]
                    if bad:
                        P("C01:running-with-unfinished-parent", f"tick {t} {name}: {pid} operator {i} is {st}, parents {bad} are {[states[q] for q in bad]}")
                        return


# ----------------------------------------------------------------------------- C02

def mon_lifecycle(rec, P, info):
    shadow = {}
    completed_at = {}
    refused = 0
    for k, (t, phase, pid, vidx, old, new, ok) in enumerate(rec.translog):
        if vidx is None:
            continue
        key = (pid, vidx)
        cur = shadow.get(key, "pending")
        if old != cur:
            P("C02:state-changed-outside-transition", f"tick {t}: {pid} operator {vidx} was {cur} after the last request, now {old}")
            cur = old
        if ok:
            if new not in TABLE.get(cur, ()):
                P("C02:illegal-transition-accepted", f"tick {t}: {pid} operator {vidx} {cur} -> {new}")
            if cur == "completed":
                P("C02:completed-operator-changed", f"tick {t}: {pid} operator {vidx} completed -> {new}")
            shadow[key] = new
            if new == "completed":
                completed_at[key] = t
        else:
            refused += 1
            if new in TABLE.get(cur, ()) and new != "running":
                P("C02:legal-transition-refused", f"tick {t}: {pid} operator {vidx} {cur} -> {new} was refused")
            shadow[key] = cur
    info["refused_requests"] = refused
    # snapshots agree with the log's shadow at the end of each tick (no out-of-band writes)
    # (checked at the end only: the shadow is a function of the whole log)
    for pid, p in rec.pipelines.items():
        rs = p.runtime_status()
        for o, st in rs.operator_states.items():
            i = getattr(o, "_vidx", None)
            if i is not None and shadow.get((pid, i), "pending") != st.value:
                P("C02:state-changed-outside-transition", f"end of run: {pid} operator {i} is {st.value}, the request log says {shadow.get((pid, i), 'pending')}")
    # a completed operator is never handed to a container again
    done = set()
    for tr in rec.ticks:
        if tr.pre is not None:
            for pid, states in tr.pre.states.items():
                for i, st in enumerate(states):
                    if st == "completed":
                        done.add((pid, i))
                    elif (pid, i) in done:
                        P("C02:completed-operator-changed", f"tick {tr.t}: {pid} operator {i} was completed, now {st}")
        for a in tr.asg:
            for op in a.ops:
                if op in done:
                    P("C02:completed-operator-reassigned", f"tick {tr.t}: {op} handed to a container again")
    # an operator belongs to at most one live container
    for t, name, s in snapshots(rec):
        seen = {}
        for pool in s.pools:
            for c in pool.active + pool.suspending:
                for op in c.ops:
                    if op in seen and seen[op] != c.cid:
                        P("C02:operator-in-two-live-containers", f"tick {t} {name}: {op} in {seen[op]} and {c.cid}")
                        return
                    seen[op] = c.cid
    # counts
    for pid, p in rec.pipelines.items():
        rs = p.runtime_status()
        hist = {}
        for st in rs.operator_states.values():
            hist[st] = hist.get(st, 0) + 1
        for st, n in rs.state_counts.items():
            if hist.get(st, 0) != n:
                P("C02:state-counts-wrong", f"{pid}: state_counts[{st.value}]={n}, histogram {hist.get(st, 0)}")
                break
        allc = all(s.value == "completed" for s in rs.operator_states.values())
        if rs.is_pipeline_successful() != allc:
            P("C02:successful-flag-wrong", f"{pid}: is_pipeline_successful={rs.is_pipeline_successful()} all completed={allc}")


# ----------------------------------------------------------------------------- C08 (admissible rounds)

def mon_admissible(rec, P, info, overcommit, multi, single_op_known=None):
    parents = parent_map(rec)
    for tr in rec.ticks:
        pre = tr.pre
        if pre is None or tr.post_sched is None:
            continue
        npools = len(pre.pools)
        cpu = [0] * npools
        ram = [0.0] * npools
        seen = set()
        for a in tr.asg:
            if not isinstance(a.pool, int) or not (0 <= a.pool < npools):
                P("C08:unknown-pool", f"tick {tr.t}: assignment for pool {a.pool} of {npools}")
                continue
            if not a.ops or not a.cpu > 0 or not a.ram > 0:
                P("C08:empty-or-zero-assignment", f"tick {tr.t}: ops={a.ops} cpu={a.cpu} ram={a.ram}")
            if not multi and len(a.ops) != 1:
                P("C08:multi-op-container-in-single-op-mode", f"tick {tr.t}: {len(a.ops)} operators in one container", known=single_op_known)
            cpu[a.pool] += a.cpu
            ram[a.pool] += a.ram
            inside = []
            for op in a.ops:
                pid, i = op
                st = pre.states.get(pid, [None] * (i + 1))[i]
                if st not in ASSIGNABLE:
                    P("C08:unassignable-operator-assigned", f"tick {tr.t}: {op} was {st} before the round")
                if op in seen:
                    P("C08:operator-assigned-twice", f"tick {tr.t}: {op} appears in two assignments of one round")
                seen.add(op)
                for q in parents.get(pid, {}).get(i, []):
                    if (pid, q) in inside:
                        continue
                    if pre.states[pid][q] != "completed":
                        P("C08:dependency-order", f"tick {tr.t}: {op} assigned but parent {q} is {pre.states[pid][q]} and not earlier in the same container")
                inside.append(op)
        for i in range(npools):
            if cpu[i] > pre.pools[i].free_cpu:
                P("C08:cpu-oversold", f"tick {tr.t}: pool {i} assigned {cpu[i]} of {pre.pools[i].free_cpu} free CPUs")
            if not overcommit and ram[i] > pre.pools[i].free_ram + max(1e-6, 1e-12 * pre.pools[i].cap_ram):
                P("C08:ram-oversold", f"tick {tr.t}: pool {i} assigned {ram[i]} of {pre.pools[i].free_ram} GB free")
        for cid, pool in tr.sus:
            ok = False
            if isinstance(pool, int) and 0 <= pool < npools:
                for c in pre.pools[pool].active:
                    if c.cid == cid and c.can_suspend:
                        ok = True
            if not ok:
                P("C08:bad-suspension", f"tick {tr.t}: suspension of {cid} in pool {pool} which is not a suspendable running container")


# ----------------------------------------------------------------------------- C03 / C04 in full simulations

def mon_conservation(rec, P, info, overcommit):
    for tr in rec.ticks:
        s = tr.post_exec
        if s is None:
            continue
        for i, p in enumerate(s.pools):
            live_cpu = sum(c.cpu for c in p.active + p.suspending)
            live_ram = sum(c.ram for c in p.active + p.suspending)
            if p.free_cpu + live_cpu != p.cap_cpu:
                P("C03:cpu-not-conserved", f"tick {tr.t}: pool {i}: free {p.free_cpu} + live {live_cpu} != {p.cap_cpu}")
            if abs(p.free_ram + live_ram - p.cap_ram) > max(1e-6, 1e-12 * p.cap_ram):
                P("C03:ram-not-conserved", f"tick {tr.t}: pool {i}: free {p.free_ram} + live {live_ram} != {p.cap_ram}")
            if p.free_cpu < 0:
                P("C03:negative-free-cpu", f"tick {tr.t}: pool {i}: {p.free_cpu}")
            if p.free_ram < -max(1e-6, 1e-12 * p.cap_ram) and not overcommit:
                P("C03:negative-free-ram", f"tick {tr.t}: pool {i}: {p.free_ram}")
            use = sum(c.mem for c in p.active)
            for c in p.active:
                if c.mem > c.ram * (1 + 1e-9):
                    P("C04:usage-above-allocation", f"tick {tr.t}: {c.cid} uses {c.mem} of {c.ram}")
            if use > p.cap_ram + max(1e-6, 1e-12 * p.cap_ram):
                P("C04:pool-usage-above-capacity", f"tick {tr.t}: pool {i}: {use} of {p.cap_ram}")
            if abs(p.consumed - use) > max(1e-6, 1e-12 * p.cap_ram):
                P("C04:reported-usage-wrong", f"tick {tr.t}: pool {i} reports {p.consumed}, containers use {use}")


# ----------------------------------------------------------------------------- C06 (independent recount)

def percentile_bracket(vals, q=0.99):
    a = sorted(vals)
    n = len(a)
    pos = q * (n - 1)
    lo = a[int(math.floor(pos))]
    hi = a[-1]
    frac = pos - math.floor(pos)
    lin = a[int(math.floor(pos))] + frac * (a[min(int(math.floor(pos)) + 1, n - 1)] - a[int(math.floor(pos))])
    return lo, hi, lin


def mon_recount(rec, P, info, params):
    """SimulatorStats versus a recount from the recorded arrivals, decisions, results and snapshots."""
    s = rec.stats
    if s is None:
        return
    tps = params["ticks_per_second"]
    duration = params["duration"]
    prio_of = {pid: p.priority.value for pid, p in rec.pipelines.items()}
    arrivals = {1: 0, 2: 0, 3: 0}
    for pid in rec.arrival_order:
        arrivals[prio_of[pid]] += 1
    # completion tick = first executor-phase snapshot with every operator completed
    finish = {}
    for tr in rec.ticks:
        snap = tr.post_exec
        if snap is None:
            continue
        for pid, states in snap.states.items():
            if pid not in finish and states and all(x == "completed" for x in states):
                finish[pid] = tr.t
    lat = {1: [], 2: [], 3: []}
    for pid, t in finish.items():
        lat[prio_of[pid]].append(t - rec.arrival_tick[pid])
    info["completed"] = {k: len(v) for k, v in lat.items()}
    info["arrived"] = dict(arrivals)
    n_asg = sum(len(tr.asg) for tr in rec.ticks)
    n_sus = sum(len(tr.sus) for tr in rec.ticks)
    results = [r for tr in rec.ticks for r in (tr.results or [])]
    n_fail = sum(1 for r in results if r.failed)
    n_ok = sum(1 for r in results if not r.failed)
    errs = {}
    for r in results:
        if r.failed:
            errs[r.error] = errs.get(r.error, 0) + 1

    def eq(name, got, want):
        if got != want:
            P("C06:" + name, f"stats.{name} = {got!r}, recount {want!r}")

    eq("pipelines_created", s.pipelines_created, len(rec.arrival_order))
    eq("containers_completed", s.containers_completed, n_ok)
    eq("assignments", s.assignments, n_asg)
    eq("suspensions", s.suspensions, n_sus)
    eq("failures", s.failures, n_fail)
    eq("failure_error_counts", dict(s.failure_error_counts), errs)
    want_tp = n_ok / duration if duration else None
    if want_tp is not None and not (abs(s.throughput - want_tp) <= 1e-9 * max(1.0, abs(want_tp))):
        P("C06:throughput", f"stats.throughput = {s.throughput!r}, successful containers / duration = {want_tp!r}")

    def cls(name, st, arr, lats):
        if st.arrival_count != arr:
            P("C06:arrival_count", f"{name}: stats {st.arrival_count}, delivered {arr}")
        if st.completion_count != len(lats):
            P("C06:completion_count", f"{name}: stats {st.completion_count}, pipelines whose operators all completed {len(lats)}")
            return
        if not lats:
            if not (isinstance(st.mean_latency_seconds, float) and math.isnan(st.mean_latency_seconds)
                    and math.isnan(st.p99_latency_seconds)):
                P("C06:empty-class-not-nan", f"{name}: mean {st.mean_latency_seconds!r} p99 {st.p99_latency_seconds!r} for an empty class")
            return
        mean = sum(lats) / len(lats) / tps
        if not abs(st.mean_latency_seconds - mean) <= 1e-9 * max(1.0, abs(mean)):
            P("C06:mean_latency", f"{name}: stats {st.mean_latency_seconds!r}, recount {mean!r} over latencies {sorted(lats)[:8]}")
        lo, hi, lin = percentile_bracket(lats)
        v = st.p99_latency_seconds * tps
        if not (lo - 1e-6 <= v <= hi + 1e-6):
            P("C06:p99_latency", f"{name}: stats p99 {v} ticks outside [{lo}, {hi}] of the completed pipelines' latencies")

    cls("all", s.pipelines_all, sum(arrivals.values()), lat[1] + lat[2] + lat[3])
    cls("query", s.pipelines_query, arrivals[1], lat[1])
    cls("interactive", s.pipelines_interactive, arrivals[2], lat[2])
    cls("batch", s.pipelines_batch, arrivals[3], lat[3])
    if s.pipelines_all.arrival_count != (s.pipelines_query.arrival_count + s.pipelines_interactive.arrival_count
                                         + s.pipelines_batch.arrival_count):
        P("C06:partition", "per-priority arrivals do not add up to the total")
    if s.pipelines_all.completion_count != (s.pipelines_query.completion_count + s.pipelines_interactive.completion_count
                                            + s.pipelines_batch.completion_count):
        P("C06:partition", "per-priority completions do not add up to the total")


# ----------------------------------------------------------------------------- scheduler round monitors

def _ready(states, pm, i, allowed=("pending",)):
    return states[i] in allowed and all(states[q] == "completed" for q in pm.get(i, []))


def _first_assignment_rounds(rec):
    first = {}
    for tr in rec.ticks:
        for a in tr.asg:
            for (pid, i) in a.ops:
                first.setdefault(pid, tr.t)
    return first


def _fifo(rec, P, tag, same_class_only):
    """pipelines get their first container in arrival order: a pipeline is never served in an earlier round than an
    older one (of the same priority class, if same_class_only)"""
    first = _first_assignment_rounds(rec)
    prio = {pid: p.priority.value for pid, p in rec.pipelines.items()}
    order = rec.arrival_order
    nrounds = len(rec.ticks)
    for ai, a in enumerate(order):
        for b in order[ai + 1:]:
            if same_class_only and prio[a] != prio[b]:
                continue
            if b in first and (a not in first or first[a] > first[b]):
                P(f"{tag}:fifo", f"{b} (arrived after {a}) got its first container in round {first[b]}, {a} in round {first.get(a)}")
                return


def mon_naive(rec, P, info, multi):
    parents = parent_map(rec)
    for tr in rec.ticks:
        if tr.pre is None or tr.post_sched is None:
            continue
        if tr.sus:
            P("C17:suspension", f"tick {tr.t}: naive issued suspensions {tr.sus}")
        per_pool = {}
        for a in tr.asg:
            per_pool.setdefault(a.pool, []).append(a)
        for pool, asgs in per_pool.items():
            if len(asgs) > 1:
                P("C17:two-containers-one-pool", f"tick {tr.t}: {len(asgs)} assignments for pool {pool} in one round")
            a = asgs[0]
            pp = tr.pre.pools[pool]
            if a.cpu != pp.free_cpu or a.ram != pp.free_ram:
                P("C17:not-whole-pool", f"tick {tr.t}: pool {pool} had {pp.free_cpu} CPUs / {pp.free_ram} GB free, container got {a.cpu} / {a.ram}")
        for a in tr.asg:
            pids = {pid for pid, _ in a.ops}
            for pid in pids:
                if "failed" in tr.pre.states.get(pid, []):
                    P("C17:assigned-after-failure", f"tick {tr.t}: work of {pid} assigned although it has a failed operator ({tr.pre.states[pid]})")
            if not multi:
                if len(a.ops) != 1:
                    P("C17:single-op-mode", f"tick {tr.t}: {len(a.ops)} operators in one container")
                else:
                    pid, i = a.ops[0]
                    if not _ready(tr.pre.states[pid], parents[pid], i, ASSIGNABLE):
                        P("C17:operator-not-ready", f"tick {tr.t}: {pid} operator {i} assigned while not ready ({tr.pre.states[pid]})")
            if len(tr.asg) >= 1 and len(tr.pre.pools) >= 2:
                info["multi_pool_round"] = True
    _fifo(rec, P, "C17", same_class_only=False)


def mon_overbook(rec, P, info):
    parents = parent_map(rec)
    failures = {}
    prev_results = []
    for tr in rec.ticks:
        if tr.pre is None or tr.post_sched is None:
            break
        for r in prev_results:
            if r.failed:
                for pid in {pid for pid, _ in r.ops}:
                    failures[pid] = failures.get(pid, 0) + 1
        if tr.sus:
            P("C18:suspension", f"tick {tr.t}: overbook issued suspensions")
        taken = [0] * len(tr.pre.pools)
        for a in tr.asg:
            pool = tr.pre.pools[a.pool]
            taken[a.pool] += 1
            if len(a.ops) != 1:
                P("C18:not-one-operator", f"tick {tr.t}: {len(a.ops)} operators in one container")
                continue
            pid, i = a.ops[0]
            if not _ready(tr.pre.states[pid], parents[pid], i, ASSIGNABLE):
                P("C18:operator-not-ready", f"tick {tr.t}: {pid} operator {i} assigned while not ready ({tr.pre.states[pid]})")
            if a.cpu != 1:
                P("C18:not-one-cpu", f"tick {tr.t}: container with {a.cpu} CPUs")
            if a.ram != pool.cap_ram:
                P("C18:ram-not-pool-capacity", f"tick {tr.t}: memory limit {a.ram}, pool capacity {pool.cap_ram}")
            if failures.get(pid, 0) >= 3:
                P("C18:assigned-after-abandon", f"tick {tr.t}: {pid} assigned again after {failures[pid]} of its containers had failed")
        triggered = bool(tr.arrivals) or bool(prev_results)
        if triggered:
            free = [tr.pre.pools[k].free_cpu - taken[k] for k in range(len(taken))]
            if any(f >= 1 for f in free):
                for pid, states in tr.post_sched.states.items():
                    if failures.get(pid, 0) >= 3:
                        continue
                    for i in range(len(states)):
                        if _ready(states, parents[pid], i, ASSIGNABLE):
                            P("C18:ready-operator-waits-beside-free-cpu", f"tick {tr.t}: {pid} operator {i} ({states[i]}) is ready, free CPUs per pool {free}")
                            break
            if any(tr.pre.pools[k].free_cpu - taken[k] == 0 and taken[k] > 0 for k in range(len(taken))):
                info["round_filled_pool"] = True
        prev_results = tr.results or []
        if tr.post_exec is not None:
            for k, pool in enumerate(tr.post_exec.pools):
                if len(pool.active) + len(pool.suspending) > pool.cap_cpu:
                    P("C18:more-containers-than-cpus", f"tick {tr.t}: pool {k} runs {len(pool.active)} containers on {pool.cap_cpu} CPUs")
    info["abandoned"] = sum(1 for v in failures.values() if v >= 3)


def mon_priority_pool(rec, P, info):
    """C16: pool separation, no suspensions, retry shape and abandonment."""
    prio = {pid: p.priority.value for pid, p in rec.pipelines.items()}
    expect_set = {}     # op -> frozenset of ops that must be retried together
    abandoned = {}      # op -> description
    fail_pools = set()
    for tr in rec.ticks:
        if tr.sus:
            P("C16:suspension", f"tick {tr.t}: priority-pool issued suspensions {tr.sus}")
        for a in tr.asg:
            pids = {pid for pid, _ in a.ops}
            for pid in pids:
                want = 0 if prio[pid] in (1, 2) else 1
                if a.pool != want:
                    P("C16:wrong-pool", f"tick {tr.t}: container of {pid} (priority {prio[pid]}) on pool {a.pool}")
                if a.prio != prio[pid]:
                    P("C16:wrong-priority-label", f"tick {tr.t}: assignment priority {a.prio}, pipeline {pid} priority {prio[pid]}")
            ops = frozenset(a.ops)
            for op in a.ops:
                if op in abandoned:
                    P("C16:abandoned-retry-assigned", f"tick {tr.t}: {op} assigned again although {abandoned[op]}")
                if op in expect_set and expect_set[op] != ops:
                    P("C16:retry-shape", f"tick {tr.t}: retry container holds {sorted(ops)}, the failed container's unfinished operators were {sorted(expect_set[op])}")
            for op in a.ops:
                expect_set.pop(op, None)
        for r in (tr.results or []):
            if r.failed:
                fail_pools.add(r.pool)
                unfinished = frozenset(op for op, st in zip(r.ops, r.states) if st != "completed")
                pool = tr.post_exec.pools[r.pool] if tr.post_exec else None
                tot_cpu = pool.cap_cpu if pool else None
                tot_ram = pool.cap_ram if pool else None
                for op in unfinished:
                    expect_set[op] = unfinished
                if pool and (2 * r.cpu / tot_cpu >= 0.5 or 2 * r.ram / tot_ram >= 0.5):
                    for op in unfinished:
                        abandoned[op] = f"its container with {r.cpu} CPUs / {r.ram} GB failed in tick {tr.t} and the doubled request reaches half of the pool ({tot_cpu} CPUs / {tot_ram} GB)"
    info["fail_pools"] = fail_pools
    info["abandoned"] = len(abandoned)


def mon_priority(rec, P, info, algo, multi):
    """C12: strict priority, FIFO within a class, work conservation, query-only preemption."""
    parents = parent_map(rec)
    prio = {pid: p.priority.value for pid, p in rec.pipelines.items()}
    for tr in rec.ticks:
        if tr.pre is None or tr.post_sched is None:
            continue
        npools = len(tr.pre.pools)
        free_cpu = [p.free_cpu for p in tr.pre.pools]
        free_ram = [p.free_ram for p in tr.pre.pools]
        for a in tr.asg:
            if 0 <= a.pool < npools:
                free_cpu[a.pool] -= a.cpu
                free_ram[a.pool] -= a.ram
        post = tr.post_sched.states
        # ready pending operators left waiting after the round, by class
        waiting = {1: [], 2: [], 3: []}
        for pid, states in post.items():
            for i in range(len(states)):
                if _ready(states, parents[pid], i):
                    waiting[prio[pid]].append((pid, i))

        def pools_for(c):
            if algo == "priority-pool":
                return [0] if c in (1, 2) else [1]
            return list(range(npools))

        depleted = lambda k: free_cpu[k] <= 0 or free_ram[k] <= 1e-9
        # strict priority
        for a in tr.asg:
            c = a.prio
            for hc in (1, 2, 3):
                if hc >= c or not waiting[hc]:
                    continue
                if algo == "priority-pool" and not (set(pools_for(hc)) & set(pools_for(c))):
                    continue
                P("C12:priority-inversion", f"tick {tr.t}: a class-{c} container was started while ready pending operators of class {hc} wait: {waiting[hc][:3]}")
                break
        # work conservation
        for c in (1, 2, 3):
            if waiting[c] and not all(depleted(k) for k in pools_for(c)):
                P("C12:work-not-conserved", f"tick {tr.t}: ready pending {waiting[c][:3]} (class {c}) left waiting while pools have free CPU {free_cpu} and RAM {free_ram}")
                break
        if sum(1 for c in (1, 2, 3) if waiting[c]) >= 2 and any(depleted(k) for k in range(npools)):
            info["two_classes_waiting_depleted"] = True
        # preemption
        if tr.sus:
            info["suspensions"] = info.get("suspensions", 0) + len(tr.sus)
            if algo != "priority":
                P("C12:suspension-by-other-scheduler", f"tick {tr.t}: {algo} suspended {tr.sus}")
            qwait_ops = 0
            qwait_pipes = 0
            for pid, states in post.items():
                if prio[pid] == 1:
                    n = sum(1 for x in states if x in ASSIGNABLE)
                    qwait_ops += n
                    qwait_pipes += 1 if n else 0
            if qwait_ops == 0:
                P("C12:suspension-without-waiting-query", f"tick {tr.t}: {tr.sus} suspended but no query pipeline has an assignable operator")
            bound = qwait_pipes if multi else qwait_ops
            if len(tr.sus) > bound > 0:
                P("C12:too-many-suspensions", f"tick {tr.t}: {len(tr.sus)} suspensions for at most {bound} waiting query job(s)")
            for cid, pool in tr.sus:
                cont = None
                if 0 <= pool < npools:
                    for c in tr.pre.pools[pool].active:
                        if c.cid == cid:
                            cont = c
                if cont is None:
                    P("C12:suspended-not-running", f"tick {tr.t}: {cid} is not a running container of pool {pool}")
                    continue
                if cont.prio == 1:
                    P("C12:query-container-suspended", f"tick {tr.t}: query container {cid} suspended")
                if not cont.can_suspend:
                    P("C12:suspended-mid-operator", f"tick {tr.t}: {cid} is not at an operator boundary")
    _fifo(rec, P, "C12", same_class_only=True)
    # suspension lengths seen (for the non-trivial rule)
    sus_start = {}
    short = False
    for tr in rec.ticks:
        for cid, pool in tr.sus:
            sus_start[cid] = tr.t
        if tr.post_exec:
            for p in tr.post_exec.pools:
                for cid in p.suspended:
                    if cid in sus_start:
                        if tr.t - sus_start.pop(cid) + 1 < 3:
                            short = True
    info["short_suspension"] = short
