"""Post-hoc monitors over a Record of one observed simulation.  Each appends (key, message) problems;
keys are prefixed with the property they belong to.  They use only what was recorded at the public
seams (snapshots at phase boundaries, decisions, results, the transition log) and their own tables.
"""
import math

TABLE = {
    "pending": {"assigned"},
    "assigned": {"running", "suspending", "failed"},
    "running": {"completed", "failed"},
    "suspending": {"pending"},
    "completed": set(),
    "failed": {"assigned"},
}
ASSIGNABLE = ("pending", "failed")


def parent_map(rec):
    out = {}
    for pid, p in rec.pipelines.items():
        m = {}
        for o in p.values.node_lookup.values():
            m[o._vidx] = [q._vidx for q in o.parents]
        out[pid] = m
    return out


def snapshots(rec):
    for tr in rec.ticks:
        for name in ("pre", "post_sched", "post_exec"):
            s = getattr(tr, name)
            if s is not None:
                yield tr.t, name, s


# ----------------------------------------------------------------------------- C01

def mon_dependencies(rec, P, info):
    parents = parent_map(rec)
    shadow = {}
    started = 0
    for (t, phase, pid, vidx, old, new, ok) in rec.translog:
        if not ok or vidx is None:
            continue
        if new == "running":
            ps = parents.get(pid, {}).get(vidx, [])
            bad = [q for q in ps if shadow.get((pid, q), "pending") != "completed"]
            if bad:
                P("C01:started-before-parent", f"tick {t}: {pid} operator {vidx} set running while parents {bad} are {[shadow.get((pid, q), 'pending') for q in bad]}")
            if ps:
                started += 1
                if len(ps) > 1:
                    info["multi_parent_child_started"] = True
        shadow[(pid, vidx)] = new
    info["children_started"] = started
    # a start request is refused exactly when a parent is unfinished, and the refusal reaches the caller
    shadow2 = {}
    for (t, phase, pid, vidx, old, new, ok) in rec.translog:
        if vidx is None:
            continue
        if new == "running" and old == "assigned":
            ps = parents.get(pid, {}).get(vidx, [])
            unfinished = [q for q in ps if shadow2.get((pid, q), "pending") != "completed"]
            if not ok and not unfinished:
                P("C01:start-refused-although-parents-completed", f"tick {t}: {pid} operator {vidx}")
            if not ok:
                info["bad_start_rejected"] = info.get("bad_start_rejected", 0) + 1
                if rec.exception is None or rec.exception_tick != t:
                    P("C01:refusal-swallowed", f"tick {t}: start of {pid} operator {vidx} was refused but the run continued (exception {rec.exception!r} at tick {rec.exception_tick})")
        if ok:
            shadow2[(pid, vidx)] = new
    for t, name, s in snapshots(rec):
        for pid, states in s.states.items():
            pm = parents.get(pid, {})
            for i, st in enumerate(states):
                if st in ("running", "completed"):
                    bad = [q for q in pm.get(i, []) if states[q] != "completed"]
                    if bad:
                        P("C01:running-with-unfinished-parent", f"tick {t} {name}: {pid} operator {i} is {st}, parents {bad} are {[states[q] for q in bad]}")
                        return


# ----------------------------------------------------------------------------- C02

def mon_lifecycle(rec, P, info):
    shadow = {}
    completed_at = {}
    refused = 0
    for k, (t, phase, pid, vidx, old, new, ok) in enumerate(rec.translog):
        if vidx is None:
            continue
        key = (pid, vidx)
        cur = shadow.get(key, "pending")
        if old != cur:
            P("C02:state-changed-outside-transition", f"tick {t}: {pid} operator {vidx} was {cur} after the last request, now {old}")
            cur = old
        if ok:
            if new not in TABLE.get(cur, ()):
                P("C02:illegal-transition-accepted", f"tick {t}: {pid} operator {vidx} {cur} -> {new}")
            if cur == "completed":
                P("C02:completed-operator-changed", f"tick {t}: {pid} operator {vidx} completed -> {new}")
            shadow[key] = new
            if new == "completed":
                completed_at[key] = t
        else:
            refused += 1
            if new in TABLE.get(cur, ()) and new != "running":
                P("C02:legal-transition-refused", f"tick {t}: {pid} operator {vidx} {cur} -> {new} was refused")
            shadow[key] = cur
    info["refused_requests"] = refused
    # snapshots agree with the log's shadow at the end of each tick (no out-of-band writes)
    # (checked at the end only: the shadow is a function of the whole log)
    if rec.ticks and rec.exception is None:
        last = rec.ticks[-1].post_exec
        if last is not None:
            for pid, states in last.states.items():
                for i, st in enumerate(states):
                    if shadow.get((pid, i), "pending") != st:
                        P("C02:state-changed-outside-transition", f"end of run: {pid} operator {i} is {st}, the request log says {shadow.get((pid, i), 'pending')}")
    # a completed operator is never handed to a container again
    done = set()
    for tr in rec.ticks:
        if tr.pre is not None:
            for pid, states in tr.pre.states.items():
                for i, st in enumerate(states):
                    if st == "completed":
                        done.add((pid, i))
                    elif (pid, i) in done:
                        P("C02:completed-operator-changed", f"tick {tr.t}: {pid} operator {i} was completed, now {st}")
        for a in tr.asg:
            for op in a.ops:
                if op in done:
                    P("C02:completed-operator-reassigned", f"tick {tr.t}: {op} handed to a container again")
    # an operator belongs to at most one live container
    for t, name, s in snapshots(rec):
        seen = {}
        for pool in s.pools:
            for c in pool.active + pool.suspending:
                for op in c.ops:
                    if op in seen and seen[op] != c.cid:
                        P("C02:operator-in-two-live-containers", f"tick {t} {name}: {op} in {seen[op]} and {c.cid}")
                        return
                    seen[op] = c.cid
    # counts
    for pid, p in rec.pipelines.items():
        rs = p.runtime_status()
        hist = {}
        for st in rs.operator_states.values():
            hist[st] = hist.get(st, 0) + 1
        for st, n in rs.state_counts.items():
            if hist.get(st, 0) != n:
                P("C02:state-counts-wrong", f"{pid}: state_counts[{st.value}]={n}, histogram {hist.get(st, 0)}")
                break
        allc = all(s.value == "completed" for s in rs.operator_states.values())
        if rs.is_pipeline_successful() != allc:
            P("C02:successful-flag-wrong", f"{pid}: is_pipeline_successful={rs.is_pipeline_successful()} all completed={allc}")


# ----------------------------------------------------------------------------- C08 (admissible rounds)

def mon_admissible(rec, P, info, overcommit, multi, single_op_known=None):
    parents = parent_map(rec)
    for tr in rec.ticks:
        pre = tr.pre
        if pre is None or tr.post_sched is None:
            continue
        npools = len(pre.pools)
        cpu = [0] * npools
        ram = [0.0] * npools
        seen = set()
        for a in tr.asg:
            if not isinstance(a.pool, int) or not (0 <= a.pool < npools):
                P("C08:unknown-pool", f"tick {tr.t}: assignment for pool {a.pool} of {npools}")
                continue
            if not a.ops or not a.cpu > 0 or not a.ram > 0:
                P("C08:empty-or-zero-assignment", f"tick {tr.t}: ops={a.ops} cpu={a.cpu} ram={a.ram}")
            if not multi and len(a.ops) != 1:
                P("C08:multi-op-container-in-single-op-mode", f"tick {tr.t}: {len(a.ops)} operators in one container", known=single_op_known)
            cpu[a.pool] += a.cpu
            ram[a.pool] += a.ram
            inside = []
            for op in a.ops:
                pid, i = op
                st = pre.states.get(pid, [None] * (i + 1))[i]
                if st not in ASSIGNABLE:
                    P("C08:unassignable-operator-assigned", f"tick {tr.t}: {op} was {st} before the round")
                if op in seen:
                    P("C08:operator-assigned-twice", f"tick {tr.t}: {op} appears in two assignments of one round")
                seen.add(op)
                for q in parents.get(pid, {}).get(i, []):
                    if (pid, q) in inside:
                        continue
                    if pre.states[pid][q] != "completed":
                        P("C08:dependency-order", f"tick {tr.t}: {op} assigned but parent {q} is {pre.states[pid][q]} and not earlier in the same container")
                inside.append(op)
        for i in range(npools):
            if cpu[i] > pre.pools[i].free_cpu:
                P("C08:cpu-oversold", f"tick {tr.t}: pool {i} assigned {cpu[i]} of {pre.pools[i].free_cpu} free CPUs")
            if not overcommit and ram[i] > pre.pools[i].free_ram + 1e-6:
                P("C08:ram-oversold", f"tick {tr.t}: pool {i} assigned {ram[i]} of {pre.pools[i].free_ram} GB free")
        for cid, pool in tr.sus:
            ok = False
            if isinstance(pool, int) and 0 <= pool < npools:
                for c in pre.pools[pool].active:
                    if c.cid == cid and c.can_suspend:
                        ok = True
            if not ok:
                P("C08:bad-suspension", f"tick {tr.t}: suspension of {cid} in pool {pool} which is not a suspendable running container")


# ----------------------------------------------------------------------------- C03 / C04 in full simulations

def mon_conservation(rec, P, info, overcommit):
    for tr in rec.ticks:
        s = tr.post_exec
        if s is None:
            continue
        for i, p in enumerate(s.pools):
            live_cpu = sum(c.cpu for c in p.active + p.suspending)
            live_ram = sum(c.ram for c in p.active + p.suspending)
            if p.free_cpu + live_cpu != p.cap_cpu:
                P("C03:cpu-not-conserved", f"tick {tr.t}: pool {i}: free {p.free_cpu} + live {live_cpu} != {p.cap_cpu}")
            if abs(p.free_ram + live_ram - p.cap_ram) > 1e-6 * max(1.0, p.cap_ram):
                P("C03:ram-not-conserved", f"tick {tr.t}: pool {i}: free {p.free_ram} + live {live_ram} != {p.cap_ram}")
            if p.free_cpu < 0:
                P("C03:negative-free-cpu", f"tick {tr.t}: pool {i}: {p.free_cpu}")
            if p.free_ram < -1e-6 and not overcommit:
                P("C03:negative-free-ram", f"tick {tr.t}: pool {i}: {p.free_ram}")
            use = sum(c.mem for c in p.active)
            for c in p.active:
                if c.mem > c.ram * (1 + 1e-9):
                    P("C04:usage-above-allocation", f"tick {tr.t}: {c.cid} uses {c.mem} of {c.ram}")
            if use > p.cap_ram + 1e-6:
                P("C04:pool-usage-above-capacity", f"tick {tr.t}: pool {i}: {use} of {p.cap_ram}")
            if abs(p.consumed - use) > 1e-6:
                P("C04:reported-usage-wrong", f"tick {tr.t}: pool {i} reports {p.consumed}, containers use {use}")


# ----------------------------------------------------------------------------- C06 (independent recount)

def percentile_bracket(vals, q=0.99):
    a = sorted(vals)
    n = len(a)
    pos = q * (n - 1)
    lo = a[int(math.floor(pos))]
    hi = a[-1]
    frac = pos - math.floor(pos)
    lin = a[int(math.floor(pos))] + frac * (a[min(int(math.floor(pos)) + 1, n - 1)] - a[int(math.floor(pos))])
    return lo, hi, lin


def mon_recount(rec, P, info, params):
    """SimulatorStats versus a recount from the recorded arrivals, decisions, results and snapshots."""
    s = rec.stats
    if s is None:
        return
    tps = params["ticks_per_second"]
    duration = params["duration"]
    prio_of = {pid: p.priority.value for pid, p in rec.pipelines.items()}
    arrivals = {1: 0, 2: 0, 3: 0}
    for pid in rec.arrival_order:
        arrivals[prio_of[pid]] += 1
    # completion tick = first executor-phase snapshot with every operator completed
    finish = {}
    for tr in rec.ticks:
        snap = tr.post_exec
        if snap is None:
            continue
        for pid, states in snap.states.items():
            if pid not in finish and states and all(x == "completed" for x in states):
                finish[pid] = tr.t
    lat = {1: [], 2: [], 3: []}
    for pid, t in finish.items():
        lat[prio_of[pid]].append(t - rec.arrival_tick[pid])
    info["completed"] = {k: len(v) for k, v in lat.items()}
    info["arrived"] = dict(arrivals)
    n_asg = sum(len(tr.asg) for tr in rec.ticks)
    n_sus = sum(len(tr.sus) for tr in rec.ticks)
    results = [r for tr in rec.ticks for r in (tr.results or [])]
    n_fail = sum(1 for r in results if r.failed)
    n_ok = sum(1 for r in results if not r.failed)
    errs = {}
    for r in results:
        if r.failed:
            errs[r.error] = errs.get(r.error, 0) + 1

    def eq(name, got, want):
        if got != want:
            P("C06:" + name, f"stats.{name} = {got!r}, recount {want!r}")

    eq("pipelines_created", s.pipelines_created, len(rec.arrival_order))
    eq("containers_completed", s.containers_completed, n_ok)
    eq("assignments", s.assignments, n_asg)
    eq("suspensions", s.suspensions, n_sus)
    eq("failures", s.failures, n_fail)
    eq("failure_error_counts", dict(s.failure_error_counts), errs)
    want_tp = n_ok / duration if duration else None
    if want_tp is not None and not (abs(s.throughput - want_tp) <= 1e-9 * max(1.0, abs(want_tp))):
        P("C06:throughput", f"stats.throughput = {s.throughput!r}, successful containers / duration = {want_tp!r}")

    def cls(name, st, arr, lats):
        if st.arrival_count != arr:
            P("C06:arrival_count", f"{name}: stats {st.arrival_count}, delivered {arr}")
        if st.completion_count != len(lats):
            P("C06:completion_count", f"{name}: stats {st.completion_count}, pipelines whose operators all completed {len(lats)}")
            return
        if not lats:
            if not (isinstance(st.mean_latency_seconds, float) and math.isnan(st.mean_latency_seconds)
                    and math.isnan(st.p99_latency_seconds)):
                P("C06:empty-class-not-nan", f"{name}: mean {st.mean_latency_seconds!r} p99 {st.p99_latency_seconds!r} for an empty class")
            return
        mean = sum(lats) / len(lats) / tps
        if not abs(st.mean_latency_seconds - mean) <= 1e-9 * max(1.0, abs(mean)):
            P("C06:mean_latency", f"{name}: stats {st.mean_latency_seconds!r}, recount {mean!r} over latencies {sorted(lats)[:8]}")
        lo, hi, lin = percentile_bracket(lats)
        v = st.p99_latency_seconds * tps
        if not (lo - 1e-6 <= v <= hi + 1e-6):
            P("C06:p99_latency", f"{name}: stats p99 {v} ticks outside [{lo}, {hi}] of the completed pipelines' latencies")

    cls("all", s.pipelines_all, sum(arrivals.values()), lat[1] + lat[2] + lat[3])
    cls("query", s.pipelines_query, arrivals[1], lat[1])
    cls("interactive", s.pipelines_interactive, arrivals[2], lat[2])
    cls("batch", s.pipelines_batch, arrivals[3], lat[3])
    if s.pipelines_all.arrival_count != (s.pipelines_query.arrival_count + s.pipelines_interactive.arrival_count
                                         + s.pipelines_batch.arrival_count):
        P("C06:partition", "per-priority arrivals do not add up to the total")
    if s.pipelines_all.completion_count != (s.pipelines_query.completion_count + s.pipelines_interactive.completion_count
                                            + s.pipelines_batch.completion_count):
        P("C06:partition", "per-priority completions do not add up to the total")
