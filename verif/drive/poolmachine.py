"""Pool machine: a generated command history (plain-data tape) interpreted against a real Executor and
the independent ModelPool in lock-step.  Serves C03, C04, C09, C10, C11 (and feeds C01/C02 clauses).

Spec:
 {"tps","pools","cpus","ram","over","multi",
  "pipes": [ {"ops": [[seg,...],...]} ],          seg = {"io":k,"cp":k,"law":L,"mem": null | ["abs",v] | ["cap",f] | ["alloc"]}
  "steps": [ {"sus": [[pool,idx,mode],...], "asg": [[pool,pipe,nops,cpuspec,ramspec,bad],...], "idle": n} ]}
Every problem key is prefixed with the property it belongs to.
"""
from fractions import Fraction as F

from hypothesis import strategies as st

from verif.runner import Outcome
from verif.model import ticks as T
from verif.model.pool import ModelPool, MContainer, MPipe, make_plans, TAU

LAWS = T.LAWS
TPS = [1, 2, 3, 5, 7, 10, 20, 50, 100, 1000]

# ------------------------------------------------------------------------------------ strategies

seg_mem = st.one_of(st.none(), st.none(),
                    st.tuples(st.just("abs"), st.sampled_from([0, 0.0, 0.25, 1, 2.5, 4, 7.75, 16])),
                    st.tuples(st.just("cap"), st.sampled_from([0.05, 0.1, 0.2, 0.3, 0.45, 0.6, 0.9, 1.0, 1.2])),
                    st.tuples(st.just("alloc")))


@st.composite
def seg_spec(draw, profile):
    kmax = 4 if profile != "long" else 12
    io = draw(st.integers(0, kmax))
    cp = draw(st.integers(0, kmax))
    mem = draw(seg_mem)
    if profile == "oom":
        mem = draw(st.one_of(st.tuples(st.just("cap"), st.sampled_from([0.05, 0.1, 0.2, 0.3, 0.4, 0.45, 0.6, 0.9])),
                             st.tuples(st.just("cap"), st.floats(0.02, 0.95)), st.none()))
    return {"io": io, "cp": cp, "law": draw(st.sampled_from(LAWS)), "mem": list(mem) if mem is not None else None}


@st.composite
def pipe_spec(draw, profile):
    nops = draw(st.sampled_from([1, 2, 2, 3, 3, 4, 5]))
    ops = []
    for _ in range(nops):
        segs = [draw(seg_spec(profile)) for _ in range(draw(st.sampled_from([1, 1, 1, 2])))]
        if len(segs) >= 2 and draw(st.integers(0, 2)) == 0:
            segs.append(dict(segs[0]))      # the same stage again (scan, crunch, scan): one Segment object listed twice
        ops.append(segs)
    return {"ops": ops}


cpu_spec = st.one_of(st.tuples(st.just("abs"), st.integers(1, 8)), st.tuples(st.just("abs"), st.integers(1, 2)),
                     st.tuples(st.just("all")), st.tuples(st.just("share"), st.integers(1, 6)),
                     st.tuples(st.just("share"), st.integers(2, 8)))


def ram_spec(profile):
    common = [st.tuples(st.just("fit"), st.sampled_from([0, 0, 0.5, 1, 3])),
              st.tuples(st.just("fit"), st.sampled_from([0, 0.25, 2])),
              st.tuples(st.just("cut"), st.integers(0, 6), st.sampled_from([0.25, 0.5, 0.75])),
              st.tuples(st.just("abs"), st.sampled_from([0.1, 0.5, 1, 2, 3, 6, 10, 20, 40])),
              st.tuples(st.just("cap"), st.sampled_from([0.1, 0.25, 0.5, 1.0])),
              st.tuples(st.just("free"), st.sampled_from([0.2, 0.3, 0.5, 0.9])),
              st.tuples(st.just("all"))]
    if profile == "oom":
        common = [st.tuples(st.just("cap"), st.sampled_from([0.1, 0.3, 0.5, 1.0, 1.0, 1.5, 2.0])),
                  st.tuples(st.just("cap"), st.floats(0.1, 2.0)),
                  st.tuples(st.just("fit"), st.sampled_from([0, 1, 5])),
                  st.tuples(st.just("cut"), st.integers(0, 6), st.sampled_from([0.5]))]
    return st.one_of(*common)


ASG_FAULTS = ["cpu_over", "ram_over", "cpu_over", "ram_over", "two_ops", "zero_cpu", "zero_ram", "no_ops", "completed_op", "skip_parent",
              "unknown_pool", "neg_pool", "double", "running_op"]
SUS_FAULTS = ["any", "any", "suspending", "unknown", "dup", "wrongpool", "suspended", "negpool", "negpool", "bigpool"]


def pool_no(pools):
    if pools < 100:
        return st.integers(0, pools - 1)
    return st.sampled_from([0, 1, 256, 257, pools - 1, 255, 257])


@st.composite
def machine_spec(draw, profile="general", tier="quick"):
    tps = draw(st.sampled_from(TPS))
    # (a few episodes with some hundred pools: pool numbers above 256 are not interned small ints any more)
    pools = draw(st.sampled_from([1, 1, 2, 3] if profile != "multi_pool" else [2, 3, 4, 2, 3, 4, 2, 3, 4, 2, 3, 300, 258]))
    cpus = draw(st.sampled_from([1, 2, 4, 8, 16, 64]))
    ram = draw(st.sampled_from([0.5, 2.3, 8, 12.34, 30, 64, 100, 256, 100, 30, 64, 2e9, 1048576]))
    over = draw(st.booleans()) if profile != "oom" else True
    if profile == "huge":
        # very large pools without overcommit: one ulp of the free-RAM figure is ~1e-7 GB, an oversell of 1e-3 .. 10 GB is
        # a relative 1e-12 .. 1e-8 and must still be refused
        ram = draw(st.sampled_from([2e9, 1048576, 4e9, 1e7]))
        over = False
    multi = draw(st.sampled_from([True, True, True, False])) if profile != "oom" else draw(st.booleans())
    if profile == "suspend":
        multi = True
        # write-out of 0->1, 1, 2, many ticks: ram/20*tps
        tps = draw(st.sampled_from([1, 2, 3, 5, 10, 20, 50, 100]))
    npipes = draw(st.integers(2, 8))
    pipes = [draw(pipe_spec(profile)) for _ in range(npipes)]
    if draw(st.integers(0, 3)) == 0:
        # branches: some templates become independent chains of one shared pipeline
        g = draw(st.integers(2, min(3, npipes)))
        for k in range(g):
            pipes[k]["group"] = 0
    nsteps = draw(st.integers(3, 25 if tier == "quick" else 60))
    steps = []
    if profile == "edge":
        # fixed-memory containers whose usage adds up to the capacity plus a small, non-rounding excess (or minus it):
        # a kill is needed for +eps, none for -eps
        pools, multi, over = 1, True, True
        ram = draw(st.sampled_from([100, 64, 30, 256]))
        parts = list(draw(st.sampled_from([(0.6, 0.4), (0.5, 0.3, 0.2), (0.7, 0.2, 0.1), (0.4, 0.35, 0.25), (0.5, 0.5),
                                           (0.4, 0.4, 0.4), (0.6, 0.6), (0.3, 0.3, 0.3, 0.3)])))
        tied = sum(parts) > 1.1      # identical containers over capacity: exactly equal scores among the candidates
        eps = draw(st.sampled_from([5e-4, 2e-5, 0.0, 1e-3, -5e-4, 0.0, 4e-4, 0.01]))
        ticks = draw(st.integers(2, 6))
        pipes = []
        whole = [float(round(f * ram)) for f in parts[:-1]]
        whole.append(float(ram - sum(whole)))
        for i, f in enumerate(parts):
            memv = round(f * ram, 6) + (eps if i == len(parts) - 1 and not tied else 0.0)
            if eps == 0.0 and not tied:
                memv = whole[i]           # whole GB adding up to exactly the capacity: no kill is justified
            pipes.append({"ops": [[{"io": 0, "cp": ticks + (0 if tied else i), "law": "const", "mem": ["abs", memv]}]]})
        pipes.append(draw(pipe_spec("oom")))
        npipes = len(pipes)
        cpus = max(cpus, len(parts) + 1)
        steps.append({"sus": [], "asg": [[0, i, 0, ["abs", 1], ["cap", 1.0], None] for i in range(len(parts))], "idle": draw(st.integers(1, 4))})
    if profile == "branches":
        # several containers of ONE pipeline (independent branches) suspended at overlapping times with different write-out lengths
        pools, multi = 1, True
        k = draw(st.integers(2, 3))
        pipes = []
        for _ in range(k):
            b = draw(pipe_spec("general"))
            while len(b["ops"]) < 3:
                b["ops"].append([draw(seg_spec("general"))])
            b["group"] = 0
            pipes.append(b)
        pipes += [draw(pipe_spec("general"))]
        npipes = len(pipes)
        cpus = max(cpus, k + 1)
        ram = draw(st.sampled_from([100, 64, 256, 30]))
        tps = draw(st.sampled_from([10, 5, 20, 2]))
        fr = draw(st.permutations([0.05, 0.15, 0.3]))
        if draw(st.integers(0, 2)) == 0:
            # identical branches of one pipeline with equal allocations: suspended together, their write-outs end in the same tick
            for i in range(1, k):
                pipes[i] = dict(pipes[0])
            fr = [fr[0]] * 3
        steps.append({"sus": [], "asg": [[0, i, 0, ["abs", 1], ["cap", fr[i]], None] for i in range(k)], "idle": 0})
        for _ in range(draw(st.integers(3, 14))):
            steps.append({"sus": [[0, j, "ok"] for j in range(draw(st.integers(1, k)))],
                          "asg": [[0, draw(st.integers(0, npipes - 1)), 0, ["abs", 1], ["cap", 0.05], None]] if draw(st.integers(0, 3)) == 0 else [],
                          "idle": 0})
    if profile == "twins":
        # identical containers started together: they reach operator boundaries, and finish suspensions, in the same ticks
        pools, multi = draw(st.sampled_from([1, 1, 2, 3])), True
        base = draw(pipe_spec("general"))
        while len(base["ops"]) < 2:
            base["ops"].append([draw(seg_spec("general"))])
        k = draw(st.integers(2, 4 if pools == 1 else 6))
        pipes = [dict(base) for _ in range(k)] + pipes[:2]
        npipes = len(pipes)
        cpus = max(cpus, k)
        rs = list(draw(st.sampled_from([("cap", 0.1), ("cap", 0.2), ("abs", 1), ("abs", 2), ("abs", 0.5), ("fit", 0.5)])))
        # with several pools the twins are dealt round-robin, and the suspensions of one call name the pools interleaved
        steps.append({"sus": [], "asg": [[i % pools, i, 0, ["abs", 1], rs, None] for i in range(k)], "idle": 0})
        for _ in range(draw(st.integers(2, 12))):
            steps.append({"sus": [[j % pools, j // pools, "ok"] for j in range(draw(st.integers(1, k)))], "asg": [], "idle": 0})
    if profile == "suspend" and draw(st.integers(0, 5)) == 0:
        # a marathon container: the very first container of the episode stays active in pool 0 for the whole episode while
        # ten and more later containers come, get suspended and go (their identifiers extend its identifier: c1 / c10..c19)
        pools, multi = 1, True
        cpus = max(cpus, 8)
        ram = draw(st.sampled_from([64, 100, 256]))
        pipes.insert(0, {"ops": [[{"io": 0, "cp": 30, "law": "const", "mem": ["abs", 0.01]}] for _ in range(6)]})
        for q in pipes[1:]:
            q.pop("group", None)
        npipes = len(pipes)
        nsteps = max(nsteps, 18)
        steps.append({"sus": [], "asg": [[0, 0, 0, ["abs", 1], ["cap", 0.02], None]], "idle": 0})
    for _ in range(nsteps):
        nsus = draw(st.sampled_from([0, 0, 0, 1, 1, 2] if profile != "suspend" else [0, 1, 1, 1, 2]))
        if pools >= 2 and profile in ("multi_pool", "suspend") and draw(st.integers(0, 2)) == 0:
            nsus = draw(st.integers(3, 5))      # several suspensions in one call, pool numbers interleaved
        sus = [[draw(pool_no(pools)), draw(st.integers(0, 5)), "ok"] for _ in range(nsus)]
        nasg = draw(st.sampled_from([0, 1, 1, 2, 3, 4] if profile != "oom" else [0, 1, 2, 3, 4, 5]))
        asg = []
        for _ in range(nasg):
            bad = None
            asg.append([draw(pool_no(pools)), draw(st.integers(0, npipes - 1)), draw(st.integers(0, 3)),
                        list(draw(cpu_spec if profile != "oom" else st.tuples(st.just("abs"), st.integers(1, 2)))),
                        list(draw(ram_spec(profile))), bad])
            if multi and profile in ("suspend", "general") and draw(st.integers(0, 5)) == 0:
                asg[-1].append(draw(st.integers(0, npipes - 1)))     # mix: one operator of another pipeline in the same container
        # a deliberate inadmissible command in about one step of 12 (an episode ends at its first rejection)
        if draw(st.integers(0, (11 if not (sus and asg) else 5) if profile != "huge" else 4)) == 0:
            if asg and (profile == "huge" or draw(st.booleans())):
                k = draw(st.integers(0, len(asg) - 1))
                f = draw(st.sampled_from((ASG_FAULTS if multi else ASG_FAULTS + ["two_ops"] * 5) if profile != "huge" else ["ram_over", "ram_over", "cpu_over"]))
                if f in ("cpu_over", "ram_over") and len(asg) >= 2:
                    # the request that does not fit is a later one of a batch for the same pool: each request fits on
                    # its own, only the sum oversells
                    k = max(k, 1)
                    asg[k][0] = asg[k - 1][0]
                if f == "cpu_over":
                    asg[k][3] = ["over", draw(st.integers(1, 3))] if draw(st.integers(0, 2)) else ["over_release"]
                elif f == "ram_over":
                    asg[k][4] = ["over", draw(st.sampled_from([1e-3, 0.5, 10]))] if draw(st.integers(0, 2)) else ["over_release"]
                else:
                    asg[k][5] = f
            else:
                sus.append([draw(pool_no(pools)), draw(st.integers(0, 5)), draw(st.sampled_from(SUS_FAULTS))])
        step = {"sus": sus, "asg": asg, "idle": draw(st.sampled_from([0, 0, 0, 1, 1, 2, 3, 6]))}
        if profile in ("suspend", "twins", "branches", "general") and asg and draw(st.integers(0, 9)) == 0:
            step["for"] = draw(st.sampled_from([1, 2]))
        if draw(st.integers(0, 29)) == 0:
            step["other_executor"] = True
        steps.append(step)
    extra = {"debug_log": True} if draw(st.integers(0, 9)) == 0 else {}
    return {**extra, "tps": tps, "pools": pools, "cpus": cpus, "ram": ram, "over": over, "multi": multi, "pipes": pipes,
            "steps": steps}


# ------------------------------------------------------------------------------------ interpreter

def seg_real(seg, tps, cpus, cap_ram, alloc):
    """Mid-tick construction: the phase is (k + 1/2) ticks long, so every tick count is far from a boundary."""
    io, cp = seg["io"], seg["cp"]
    read = (io + 0.5) * 20.0 / tps if io > 0 else 0.0
    sp, _ = T.speedup(seg["law"], cpus)
    base = ((cp + 0.5) / tps) * float(sp) if cp > 0 else 0.0
    m = seg["mem"]
    if m is None:
        mem = None
    elif m[0] == "abs":
        mem = m[1]
    elif m[0] == "cap":
        mem = round(m[1] * cap_ram, 6)
    elif m[0] == "alloc":
        mem = alloc
    else:
        raise ValueError(m)
    return {"cpu": base, "law": seg["law"], "mem": mem, "read": read}


def demand_levels(ops_real, tps):
    lv = set()
    for segs in ops_real:
        for sg in segs:
            if sg["mem"] is not None:
                lv.add(F(sg["mem"]))
            else:
                lv.add(F(sg["read"]))
                for i in range(max(T.io_ticks(sg["read"], tps))):
                    lv.add(F(i + 1) * 20 / tps)
    return sorted(lv)


class Episode:
    def __init__(self, spec, out):
        from eudoxia.executor import Executor
        self.spec = spec
        self.out = out
        self.tps = spec["tps"]
        self.ex = Executor(num_pools=spec["pools"], cpus_per_pool=spec["cpus"], ram_gb_per_pool=spec["ram"],
                           ticks_per_second=spec["tps"], allow_memory_overcommit=spec["over"],
                           multi_operator_containers=spec["multi"])
        self.mp = [ModelPool(i, spec["cpus"], spec["ram"], spec["over"], spec["multi"], spec["tps"])
                   for i in range(spec["pools"])]
        self.pipes = {}       # template index -> (MPipe, real Pipeline, real ops, ops_real specs)
        self.next_cid = 1
        self.containers = {}  # cid -> MContainer
        self.real_results = {}  # cid -> list of ticks with a result
        self.tick_no = 0
        self.ended = None
        self.stats = {"accepted": 0, "ok": 0, "oom": 0, "sus_accepted": 0, "sus_done": 0, "rejects": 0,
                      "pool_kills": 0, "ticks": 0}

    def problem(self, key, msg):
        self.out.problem(key, f"tick {self.tick_no}: {msg}")

    # -- building -------------------------------------------------------------------------------
    def instantiate(self, pi, cpus, alloc):
        """Templates with the same "group" are independent chains (branches) of ONE real pipeline."""
        from eudoxia.workload.pipeline import Segment, Pipeline
        from eudoxia.utils import Priority
        g = self.spec["pipes"][pi].get("group")
        members = [pi] if g is None else [k for k, t in enumerate(self.spec["pipes"]) if t.get("group") == g]
        first = min(members)
        p = Pipeline(f"p{first}", [Priority.QUERY, Priority.INTERACTIVE, Priority.BATCH_PIPELINE][first % 3])
        for k in members:
            tmpl = self.spec["pipes"][k]
            ops_real = [[seg_real(sg, self.tps, cpus, self.spec["ram"], alloc) for sg in segs] for segs in tmpl["ops"]]
            prev = None
            real = []
            for segs in ops_real:
                o = p.new_operator([prev] if prev else None)
                same = {}
                for sg in segs:
                    key = (sg["cpu"], sg["law"], sg["mem"], sg["read"])
                    if key not in same or len(real) % 2:
                        # identical stages of an even-numbered operator are one Segment object added twice
                        same[key] = Segment(baseline_cpu_seconds=sg["cpu"], cpu_scaling=sg["law"], memory_gb=sg["mem"], storage_read_gb=sg["read"])
                    o.add_segment(same[key])
                prev = o
                real.append(o)
            self.pipes[k] = (MPipe(f"p{first}.{k}", len(real)), p, real, ops_real)
        return self.pipes[pi]

    def template_levels(self, pi, lo, hi, cpus):
        if pi in self.pipes:
            return demand_levels(self.pipes[pi][3][lo:hi], self.tps)
        tmpl = self.spec["pipes"][pi]
        ops_real = [[seg_real(sg, self.tps, cpus, self.spec["ram"], 1.0) for sg in segs] for segs in tmpl["ops"][lo:hi]]
        return demand_levels(ops_real, self.tps)

    # -- one step -------------------------------------------------------------------------------
    def run(self):
        self._run()
        if self.ended == "reject":
            self.after_refusal()

    def after_refusal(self):
        """One more, empty, call after a refused round.  Whatever part of the refused round was applied (that is
        unspecified), an empty round cannot create a container, a success still means that every operator completed, and
        every pool still accounts for its whole capacity."""
        out = self.out
        known = [{c.container_id for c in list(p.active_containers) + list(p.suspending_containers) + list(p.suspended_containers)}
                 for p in self.ex.pools]
        try:
            results = self.ex.run_one_tick([], [])
        except Exception:
            out.label("call_after_refusal_raised")
            return
        out.label("call_after_refusal")
        self.tick_no += 1
        for i, p in enumerate(self.ex.pools):
            now = {c.container_id for c in list(p.active_containers) + list(p.suspending_containers) + list(p.suspended_containers)}
            new = sorted(now - known[i])
            if new:
                self.problem("C09:container-without-assignment", f"pool {i}: containers {new} appeared in a round that carried no command (the round before was refused)")
            held_cpu = sum(c.assignment.cpu for c in list(p.active_containers) + list(p.suspending_containers))
            held_ram = sum(c.assignment.ram for c in list(p.active_containers) + list(p.suspending_containers))
            if p.avail_cpu_pool + held_cpu != self.spec["cpus"]:
                self.problem("C03:cpu-not-conserved", f"pool {i} after a refused round and one empty round: free {p.avail_cpu_pool} + held {held_cpu} != capacity {self.spec['cpus']}")
            if abs(p.avail_ram_pool + held_ram - self.spec["ram"]) > max(1e-6, 1e-9 * self.spec["ram"]):
                self.problem("C03:ram-not-conserved", f"pool {i} after a refused round and one empty round: free {p.avail_ram_pool} + held {held_ram} != capacity {self.spec['ram']}")
        for r in results:
            if r.error is None and any(o.state().value != "completed" for o in r.ops):
                self.problem("C09:success-with-unfinished-operators", f"{r.container_id} reported success, its operators are {[o.state().value for o in r.ops]}")

    def _run(self):
        for step in self.spec["steps"]:
            if step.get("other_executor"):
                # another, unrelated executor is created in the same process while this one has live containers
                from eudoxia.executor import Executor
                Executor(num_pools=1, cpus_per_pool=4, ram_gb_per_pool=16, ticks_per_second=self.spec["tps"],
                         allow_memory_overcommit=False, multi_operator_containers=True)
                if any(m.active or m.suspending for m in self.mp):
                    self.out.label("other_executor_created_while_containers_live")
            self.do_tick(step["sus"], step["asg"], step.get("for", 0))
            if self.ended:
                return
            for _ in range(step["idle"]):
                self.do_tick([], [])
                if self.ended:
                    return
        # drain a little so started containers reach an outcome (bounded)
        for _ in range(40):
            if not any(m.active or m.suspending for m in self.mp):
                break
            self.do_tick([], [])
            if self.ended:
                return

    def do_tick(self, sus_cmds, asg_cmds, fault_on_release=0):
        from eudoxia.executor.assignment import Assignment, Suspend
        from eudoxia.utils import Priority
        out = self.out
        self.tick_no += 1
        self.stats["ticks"] += 1
        npools = self.spec["pools"]
        expect = "accept"
        reasons = []
        # ---- suspensions
        real_sus = []
        sus_by_pool = {i: [] for i in range(npools)}
        for pool, idx, mode in sus_cmds:
            if mode in ("negpool", "bigpool"):
                # a suspension that names a pool which does not exist; with -k the container is taken from the pool that
                # Python's negative indexing would reach, so that a lookup by index would find it
                k = 1 + idx % npools
                src = self.mp[npools - k] if mode == "negpool" else self.mp[idx % npools]
                cand = [c for c in src.active if c.can_suspend] or list(src.active)
                if not cand:
                    continue
                badpool = -k if mode == "negpool" else npools + idx % 2
                real_sus.append(Suspend(cand[idx % len(cand)].cid, badpool))
                expect = "reject"
                reasons.append(("C09", f"suspension naming pool {badpool} of {npools}"))
                out.label("sus_attempt_" + mode)
                continue
            m = self.mp[pool]
            cid = None
            if mode in ("ok", "dup"):
                cand = [c for c in m.active if c.can_suspend and c.cid not in sus_by_pool[pool]]
                if cand:
                    cid = cand[idx % len(cand)].cid
            elif mode == "any":
                cand = [c for c in m.active if c.cid not in sus_by_pool[pool]]
                if cand:
                    cid = cand[idx % len(cand)].cid
            elif mode == "suspending":
                if m.suspending:
                    cid = m.suspending[idx % len(m.suspending)].cid
            elif mode == "suspended":
                if m.suspended:
                    cid = m.suspended[idx % len(m.suspended)].cid
            elif mode == "unknown":
                cid = "c99999"
            elif mode == "wrongpool":
                others = [c for j, mm in enumerate(self.mp) if j != pool for c in mm.active if c.can_suspend]
                if others:
                    cid = others[idx % len(others)].cid
            if cid is None:
                continue
            sus_by_pool[pool].append(cid)
            real_sus.append(Suspend(cid, pool))
            if any(c.cid != cid and c.cid in cid for c in m.active):
                out.label("suspended_id_contains_id_of_active_neighbour")
            if any(x.pool_id == pool for x in real_sus[:-1]) and real_sus[-2].pool_id != pool:
                out.label("suspensions_of_one_call_interleave_pools")
            if mode == "dup":
                sus_by_pool[pool].append(cid)
                real_sus.append(Suspend(cid, pool))
            out.label("sus_attempt_" + mode)
        for pool in range(npools):
            if sus_by_pool[pool]:
                v = self.mp[pool].judge_suspensions(sus_by_pool[pool])
                if v == "reject":
                    expect = "reject"
                    reasons.append(("C10", f"suspension of {sus_by_pool[pool]} in pool {pool} is not allowed now"))
        # ---- assignments
        real_asg = []
        new_by_pool = {i: [] for i in range(npools)}
        batch_by_pool = {i: [] for i in range(npools)}
        bad_pool_cmd = False
        ctor_reject = None
        taken = {}            # template -> next op index already handed out this tick
        release_fault_pools = set()
        for cmd in asg_cmds:
            pool, pi, nops, cpuspec, ramspec, bad = cmd[:6]
            mix = cmd[6] if len(cmd) > 6 else None
            m = self.mp[pool]
            ramspec_is_over = False
            # sizes
            free_cpu_left = m.free_cpu - sum(b[0] for b in batch_by_pool[pool])
            free_ram_left = float(self.ex.pools[pool].avail_ram_pool) - sum(b[1] for b in batch_by_pool[pool])
            if fault_on_release and not self.spec["over"]:
                # "for" flag of the step: if an allocation is being released in this very tick, ask for part of it
                pending = [c for c in m.suspending if c.sus_elapsed + 1 >= max(c.sus_allowed)] + \
                          [self.containers[x] for x in sus_by_pool[pool] if x in self.containers and max(T.suspend_ticks(self.containers[x].ram, self.tps)) == 1]
                if pending:
                    if fault_on_release == 1:
                        cpuspec = ["over_release"]
                    else:
                        ramspec = ["over_release"]
                    fault_on_release = 0
            releasing = [c for c in m.suspending if c.sus_elapsed + 1 >= max(c.sus_allowed)] + \
                        [self.containers[x] for x in sus_by_pool[pool] if x in self.containers and max(T.suspend_ticks(self.containers[x].ram, self.tps)) == 1]
            if cpuspec[0] == "over_release":
                cpuspec = ["over", 1] if not releasing else ["abs", max(free_cpu_left, 0) + releasing[0].cpu]
                if releasing:
                    out.label("oversell_by_allocation_being_released")
                    release_fault_pools.add(pool)
            if ramspec[0] == "over_release":
                ramspec = ["over", 0.5] if not releasing else ["abs", max(free_ram_left, 0.0) + float(releasing[0].ram) * 0.5]
                if releasing:
                    ramspec_is_over = True
                    out.label("oversell_by_allocation_being_released")
                    release_fault_pools.add(pool)
            if cpuspec[0] == "abs":
                cpu = cpuspec[1]
            elif cpuspec[0] == "all":
                cpu = free_cpu_left
            elif cpuspec[0] == "share":
                cpu = max(1, free_cpu_left // cpuspec[1])
            else:
                cpu = max(free_cpu_left, 0) + cpuspec[1]
            if cpuspec[0] != "over" and cpu > free_cpu_left and not (releasing and cpu == max(free_cpu_left, 0) + releasing[0].cpu):
                cpu = free_cpu_left   # only the 'over' specs oversell on purpose
            if cpu <= 0:
                continue          # nothing free: the command is not issued
            # operators
            if pi in self.pipes:
                mpipe = self.pipes[pi][0]
                start = mpipe.assignable_from()
                nall = len(mpipe.states)
            else:
                mpipe = None
                start = 0
                nall = len(self.spec["pipes"][pi]["ops"])
            if pi in taken:
                start = None
            if bad == "completed_op":
                if mpipe is None or "completed" not in mpipe.states or start is None:
                    continue
                lo, hi = mpipe.states.index("completed"), start + 1
            elif bad == "running_op":
                if mpipe is None or "running" not in mpipe.states:
                    continue
                lo = mpipe.states.index("running")
                hi = lo + 1
            elif bad == "skip_parent":
                if start is None or start + 1 >= nall:
                    continue
                lo, hi = start + 1, nall if self.spec["multi"] else start + 2
            else:
                if start is None:
                    continue
                lo = start
                if not self.spec["multi"]:
                    hi = lo + 1
                else:
                    hi = nall if nops == 0 else min(nall, lo + nops)
                if bad == "two_ops":
                    if self.spec["multi"] or lo + 2 > nall:
                        continue
                    hi = lo + 2
            levels = self.template_levels(pi, lo, hi, cpu)
            top = float(levels[-1]) if levels else 0.0
            if ramspec[0] == "fit":
                ram = top + ramspec[1]
            elif ramspec[0] == "cut":
                if len(levels) < 2:
                    ram = top + 1
                else:
                    j = ramspec[1] % (len(levels) - 1)
                    ram = float(levels[j] + (levels[j + 1] - levels[j]) * F(ramspec[2]))
            elif ramspec[0] == "abs":
                ram = ramspec[1]
            elif ramspec[0] == "cap":
                ram = round(ramspec[1] * self.spec["ram"], 6)
            elif ramspec[0] == "all":
                ram = free_ram_left
            elif ramspec[0] == "free":
                ram = round(free_ram_left * ramspec[1], 6)
            else:
                ram = max(free_ram_left, 0) + ramspec[1]
            if ramspec[0] not in ("over", "all") and not self.spec["over"] and ram > free_ram_left - 1e-3 and not locals().get("ramspec_is_over"):
                # only the 'over' spec oversells on purpose; everything else is cut down to what is free
                ram = round(free_ram_left * 0.5, 6)
            if not ram > 1e-4:
                continue          # nothing free: the command is not issued
            if bad == "zero_cpu":
                cpu = 0
            if bad == "zero_ram":
                ram = 0
            use_pool = pool
            if bad == "unknown_pool":
                use_pool = npools + (nops % 3)
            if bad == "neg_pool":
                use_pool = -1
            # instantiate lazily (fixed memory "alloc" = bit-identical to this first allocation)
            if pi not in self.pipes:
                self.instantiate(pi, max(cpu, 1), ram)
            mpipe, rp, rops, ops_real = self.pipes[pi]
            ops = rops[lo:hi]
            extra, extra_specs = [], []
            if (mix is not None and bad is None and self.spec["multi"] and mix != pi and mix not in taken
                    and self.spec["pipes"][pi].get("group") is None and self.spec["pipes"][mix].get("group") is None):
                # one operator of ANOTHER pipeline packed behind this pipeline's operators in the same container
                if mix not in self.pipes:
                    self.instantiate(mix, max(cpu, 1), ram)
                mpipe2, _rp2, rops2, ops_real2 = self.pipes[mix]
                st2 = mpipe2.assignable_from()
                if st2 is not None:
                    ops = ops + [rops2[st2]]
                    extra = [(mpipe2, st2)]
                    extra_specs = ops_real2[st2:st2 + 1]
                    mix_taken = (mix, st2 + 1)
                    out.label("container_mixing_two_pipelines")
            if bad == "no_ops":
                ops = []
            if bad in ("zero_cpu", "zero_ram", "no_ops", "completed_op", "running_op"):
                ctor_reject = ("C02" if bad in ("completed_op", "running_op") else "C08", f"assignment with {bad}")
            if bad == "double" and not ctor_reject:
                # the same operators handed to two containers in one round
                try:
                    Assignment(ops, cpu, ram, rp.priority, use_pool, rp.pipeline_id)
                    Assignment(ops, cpu, ram, rp.priority, use_pool, rp.pipeline_id)
                except Exception:
                    self.stats["rejects"] += 1
                    out.label("reject_double")
                    self.ended = "reject"
                    return
                self.problem("C02:double-assignment-accepted", f"operators {lo}..{hi - 1} of p{pi} accepted into two containers at once")
                self.ended = "problem"
                return
            try:
                a = Assignment(ops, cpu, ram, rp.priority, use_pool, rp.pipeline_id)
            except Exception as e:
                if ctor_reject:
                    self.stats["rejects"] += 1
                    out.label("reject_" + str(bad))
                    self.ended = "reject"
                    return
                self.problem("C08:valid-assignment-refused", f"Assignment(p{pi} ops {lo}..{hi - 1}, cpu={cpu}, ram={ram}) raised {type(e).__name__}: {e}")
                self.ended = "problem"
                return
            if ctor_reject:
                self.problem(ctor_reject[0] + ":bad-assignment-accepted", ctor_reject[1] + " was constructed without an error")
                self.ended = "problem"
                return
            real_asg.append(a)
            taken[pi] = hi
            if bad in ("unknown_pool", "neg_pool"):
                bad_pool_cmd = True
                expect = "reject"
                reasons.append(("C09", f"command for pool {use_pool} of {npools}"))
                continue
            for i in range(lo, hi):
                mpipe.states[i] = "assigned"
            for p2_, i2_ in extra:
                p2_.states[i2_] = "assigned"
                taken[mix_taken[0]] = mix_taken[1]
            batch_by_pool[pool].append((cpu, ram, hi - lo + len(extra), ramspec[0] == 'all' and not batch_by_pool[pool]))
            plans = make_plans(ops_real[lo:hi] + extra_specs, cpu, self.tps)
            if plans is None:
                out.skipped = "ambiguous_plan"
                self.ended = "skip"
                return
            new_by_pool[pool].append((MContainer(None, pool, mpipe, range(lo, hi), cpu, ram, plans, self.tps, extra), bad))
            new_by_pool[pool][-1][0].real_ops = list(ops)
            if getattr(mpipe, "was_suspended", False):
                out.label("reassigned_after_suspension")
                new_by_pool[pool][-1][0].after_suspension = True
            if getattr(mpipe, "had_failure", False):
                out.label("retry_after_failure")
            if bad == "skip_parent":
                expect = "reject"
                reasons.append(("C01", f"p{pi} operator {lo} assigned while its parent has not completed"))
            if bad == "two_ops":
                pass  # judged by judge_batch (single-operator mode)
        rejected_pools = []
        for pool in range(npools):
            v, tag, why = self.mp[pool].judge_batch(batch_by_pool[pool])
            if v == "reject":
                expect = "reject"
                if pool in release_fault_pools:
                    reasons.insert(0, ("C10", f"batch {batch_by_pool[pool]} needs part of an allocation that a suspending container of pool {pool} holds until the end of this tick"))
                reasons.append((tag, why))
                if tag == "C03":
                    rejected_pools.append(pool)
            elif v == "either" and expect == "accept":
                expect = "either"
        # ---- execute
        before = [(p.avail_cpu_pool, p.avail_ram_pool, len(p.active_containers)) for p in self.ex.pools]
        live_before = {c.container_id: [o.state().value for o in c.operators]
                       for p in self.ex.pools for c in list(p.active_containers) + list(p.suspending_containers)}
        try:
            results = self.ex.run_one_tick(real_sus, real_asg)
            happened = "accept"
        except Exception as e:
            happened = "reject"
            exc = e
        if expect == "either":
            out.label("ambiguous_admission")
            if happened == "reject":
                self.ended = "reject"
                return
        elif expect == "reject":
            if happened == "accept":
                tag, why = reasons[0]
                self.problem(f"{tag}:bad-command-accepted", why + " but the executor accepted the round")
                self.ended = "problem"
                return
            self.stats["rejects"] += 1
            self.last_reasons = reasons
            # a rejected round may not swallow outcomes: a container that was live before the call and is gone after it
            # ended during the call, and its result went nowhere
            # Only for rounds rejected solely because a command names a pool that does not exist: every other command of
            # such a round is valid, so the rejection may not swallow outcomes of the existing pools.  (A round rejected by
            # one pool - oversell, bad suspension - aborts the executor mid-call; what happened in pools processed before
            # it is not covered by any listed property.)
            if all(tag == "C09" for tag, _ in reasons):
                live_after = {c.container_id for p in self.ex.pools for c in list(p.active_containers) + list(p.suspending_containers)}
                done_after = {c.container_id for p in self.ex.pools for c in p.suspended_containers}
                for cid_ in live_before:
                    if cid_ not in live_after and cid_ not in done_after:
                        self.problem("C09:outcome-lost-in-rejected-round", f"{cid_} was live before a round that was rejected only for naming a non-existent pool, and is gone after it; no result was delivered")
            for tag, _ in reasons:
                out.label("reject_" + tag)
            # an overselling batch leaves its pool untouched
            for i in rejected_pools:
                p = self.ex.pools[i]
                now = (p.avail_cpu_pool, p.avail_ram_pool, len(p.active_containers))
                if now[0] != before[i][0] or abs(now[1] - before[i][1]) > 1e-9 * max(1.0, abs(before[i][1])) or (now[2] != before[i][2] and not sus_by_pool[i]):
                    self.problem("C03:rejected-batch-changed-ledger", f"pool {i} before {before[i]} after {now}")
            self.ended = "reject"
            return
        elif happened == "reject":
            self.problem("C08:valid-round-refused", f"admissible commands sus={sus_by_pool} asg={batch_by_pool} raised {type(exc).__name__}: {exc}")
            if any(sus_by_pool.values()) and (not real_asg or "suspend" in str(exc).lower()):
                # the round carried nothing but suspensions the model allows: containers that finished an operator in the previous
                # tick and have another one left CAN be suspended
                self.problem("C10:allowed-suspension-refused", f"suspensions {sus_by_pool} of containers that just finished an operator and have another one left raised {type(exc).__name__}: {exc}")
            if not isinstance(exc, (AssertionError, ValueError)):
                # not a refusal but a crash inside the tick: the live containers get no outcome, the memory rules and the
                # ledger of that tick are not applied - every pool property is broken by it
                for tag in ("C03", "C04", "C09", "C10", "C11"):
                    self.problem(f"{tag}:tick-crashed", f"admissible round raised {type(exc).__name__}: {exc}")
            self.ended = "problem"
            return
        # ---- accepted: learn the identifier the implementation gave to each new container (matched through the first
        # operator object it holds, so nothing is assumed about the naming scheme); exactly one container per assignment
        first_op = {}
        for pool in range(npools):
            for c, bad in new_by_pool[pool]:
                first_op[id(c.real_ops[0])] = c
        seen_real = {}
        for p_ in self.ex.pools:
            for rc in list(p_.active_containers) + list(p_.suspending_containers):
                seen_real.setdefault(rc.container_id, (rc.operators, p_.pool_id))
        for r in results:
            seen_real.setdefault(r.container_id, (r.ops, r.pool_id))
        for rcid, (rops_, rpool) in seen_real.items():
            if rcid in self.containers:
                continue
            mc = first_op.pop(id(rops_[0]), None) if rops_ else None
            if mc is None:
                self.problem("C09:unexpected-container", f"container {rcid} in pool {rpool} does not belong to any assignment of this round")
                continue
            if rpool != mc.pool or [id(o) for o in rops_] != [id(o) for o in mc.real_ops]:
                self.problem("C09:container-differs-from-assignment", f"container {rcid}: pool {rpool} / {len(rops_)} operators, assignment: pool {mc.pool} / {len(mc.real_ops)} operators")
            mc.cid = rcid
            self.containers[rcid] = mc
            self.stats["accepted"] += 1
        for mc in first_op.values():
            self.problem("C09:assignment-without-container", f"accepted assignment of {len(mc.real_ops)} operator(s) to pool {mc.pool} produced no container")
            mc.cid = f"missing{self.next_cid}"
            self.next_cid += 1
            self.containers[mc.cid] = mc
        if self.out.problems:
            self.ended = "problem"
            return
        real_failed = {r.container_id for r in results if r.failed()}
        problems = []
        for pool in range(npools):
            rp = self.ex.pools[pool]
            m = self.mp[pool]
            real_sus_done = {c.container_id for c in rp.suspended_containers}
            n_sus_before = len(m.suspended)
            m.sus_finished_this_tick = False
            mres = m.tick(sus_by_pool[pool], [c for c, _ in new_by_pool[pool]], real_failed, real_sus_done, problems)
            self.stats["sus_accepted"] += len(sus_by_pool[pool])
            self.stats["sus_done"] += len(m.suspended) - n_sus_before
            m.sus_finished_this_tick = len(m.suspended) > n_sus_before
            if m.last_victims:
                self.stats["pool_kills"] += len(m.last_victims)
                out.label("pool_level_kill")
                if len(m.last_victims) >= 2:
                    out.label("two_victims_one_tick")
            if getattr(m, "last_exact_fit", False):
                out.label("usage_exactly_at_capacity")
            if m.last_crossing:
                out.label("capacity_crossed")
                if m.last_eligible >= 3 and m.last_order_differs:
                    out.label("crossing_3plus_usage_order_ne_score_order")
                if m.last_tie:
                    out.label("crossing_with_tie")
            for cid in sus_by_pool[pool]:
                self.containers[cid].pipe.was_suspended = True
            kinds = set(mres.values())
            if kinds == {"ok", "oom"}:
                out.label("tick_with_success_and_failure")
                self.mixed_tick = True
            for cid, v in mres.items():
                mc = self.containers[cid]
                if v == "oom":
                    mc.pipe.had_failure = True
                elif getattr(mc, "after_suspension", False):
                    out.label("rerun_after_suspension_succeeded")
            if m.suspended or m.suspending:
                out.label("usage_read_after_suspension")
            if len(new_by_pool[pool]) >= 2:
                out.label("batch_ge2")
            self.compare_pool(pool, rp, m, mres, results)
        for key, msg in problems:
            self.problem(key, msg)
        self.compare_global(results)
        if self.out.problems:
            self.ended = "problem"

    # -- comparisons -----------------------------------------------------------------------------
    def compare_pool(self, pool, rp, m, mres, results):
        P = self.problem
        ids = lambda cs: sorted(c.container_id for c in cs)
        mids = lambda cs: sorted(c.cid for c in cs)
        ract, rsus, rdone = ids(rp.active_containers), ids(rp.suspending_containers), ids(rp.suspended_containers)
        # C03 conservation from the implementation's own figures (no model involved)
        cpu_live = sum(c.assignment.cpu for c in rp.active_containers) + sum(c.assignment.cpu for c in rp.suspending_containers)
        ram_live = sum(F(c.assignment.ram) for c in rp.active_containers) + sum(F(c.assignment.ram) for c in rp.suspending_containers)
        if rp.avail_cpu_pool + cpu_live != rp.max_cpu_pool:
            P("C03:cpu-not-conserved", f"pool {pool}: free {rp.avail_cpu_pool} + live {cpu_live} != capacity {rp.max_cpu_pool}")
        tol = float(m.tau)
        if abs(F(rp.avail_ram_pool) + ram_live - F(rp.max_ram_pool)) > m.tau:
            P("C03:ram-not-conserved", f"pool {pool}: free {rp.avail_ram_pool} + live {float(ram_live)} != capacity {rp.max_ram_pool}")
        if rp.avail_cpu_pool < 0:
            P("C03:negative-free-cpu", f"pool {pool}: free cpu {rp.avail_cpu_pool}")
        if rp.avail_ram_pool < -tol and not self.spec["over"]:
            P("C03:negative-free-ram", f"pool {pool}: free ram {rp.avail_ram_pool} without overcommit")
        # ledger against the model (allocation returned exactly once, in the right tick)
        if rp.avail_cpu_pool != m.free_cpu:
            P("C03:free-cpu-differs", f"pool {pool}: free cpu {rp.avail_cpu_pool}, model {m.free_cpu}")
        if abs(F(rp.avail_ram_pool) - m.free_ram) > m.tau:
            P("C03:free-ram-differs", f"pool {pool}: free ram {rp.avail_ram_pool}, model {float(m.free_ram)}")
        if (rp.avail_cpu_pool != m.free_cpu or abs(F(rp.avail_ram_pool) - m.free_ram) > m.tau) and (m.suspending or getattr(m, "sus_finished_this_tick", False)):
            P("C10:allocation-of-suspending-container", f"pool {pool}: free {rp.avail_cpu_pool} CPUs / {rp.avail_ram_pool} GB, model {m.free_cpu} / {float(m.free_ram)} while a suspension is in progress or has just finished: a suspending container holds its whole allocation, and exactly that is freed once")
        # C09 container lists / outcomes
        if ract != mids(m.active):
            P("C09:active-list-differs", f"pool {pool}: active {ract}, model {mids(m.active)}")
        if rsus != mids(m.suspending):
            P("C10:suspending-list-differs", f"pool {pool}: suspending {rsus}, model {mids(m.suspending)}")
        if rdone != mids(m.suspended):
            P("C10:suspended-list-differs", f"pool {pool}: suspended {rdone}, model {mids(m.suspended)}")
        rres = {}
        for r in results:
            if r.pool_id == pool:
                if r.container_id in rres:
                    P("C09:result-twice-in-tick", f"{r.container_id} has two results in one tick")
                rres[r.container_id] = "oom" if r.failed() else "ok"
                if r.failed() and not r.error:
                    P("C09:failure-without-error", f"{r.container_id}")
        if rres != mres:
            extra = {k: v for k, v in rres.items() if mres.get(k) != v}
            missing = {k: v for k, v in mres.items() if rres.get(k) != v}
            tag = "C09:results-differ"
            for k, v in extra.items():
                mc = self.containers.get(k)
                if v == "oom" and mc is not None and mc.result == "ok":
                    tag = "C11:finished-container-killed"
                elif v == "oom" and mc is not None and mc.result is None:
                    tag = "C04:unjustified-kill"
            P(tag, f"pool {pool}: results {rres}, model {mres} (unexpected {extra}, missing {missing})")
        # C04 memory
        usage_sum = 0.0
        for c in rp.active_containers:
            mc = self.containers.get(c.container_id)
            u = c.get_current_memory_usage()
            usage_sum += u
            if u > c.assignment.ram * (1 + 1e-9):
                P("C04:usage-above-allocation", f"{c.container_id} uses {u} of {c.assignment.ram} GB after the tick")
            if mc is not None and mc.where == "active" and abs(u - float(mc.usage)) > 1e-9 * max(1.0, u):
                P("C04:usage-differs", f"{c.container_id} uses {u} GB, model {float(mc.usage)}")
        if usage_sum > rp.max_ram_pool + tol:
            P("C04:pool-usage-above-capacity", f"pool {pool}: containers use {usage_sum} of {rp.max_ram_pool} GB")
        rep = rp.get_consumed_ram_gb()
        if abs(rep - usage_sum) > tol:
            P("C04:reported-usage-wrong", f"pool {pool}: reports {rep} GB, running containers use {usage_sum} GB")
        if not rp.active_containers and rep != 0:
            if abs(rep) > tol:
                P("C04:reported-usage-wrong", f"pool {pool}: empty pool reports {rep} GB")
        # C09 / C03: a container whose operators have all reached a final state has ended: it must have reported, and its
        # allocation must have been returned, in this tick
        for c in rp.active_containers:
            sts = [o.state().value for o in c.operators]
            if all(x in ("completed", "failed") for x in sts):
                P("C09:ended-without-result-in-tick", f"{c.container_id} has operator states {sts} but is still listed as running and reported no result")
                P("C03:allocation-not-returned-in-ending-tick", f"{c.container_id} has operator states {sts} (it has ended) but still holds {c.assignment.cpu} CPUs / {c.assignment.ram} GB after the tick")
        # C09 accounting
        live = len(rp.active_containers) + len(rp.suspending_containers)
        if m.n_accepted != m.n_ok + m.n_failed + len(rp.suspended_containers) + live:
            P("C09:accounting", f"pool {pool}: accepted {m.n_accepted} != ok {m.n_ok} + failed {m.n_failed} + suspended {len(rp.suspended_containers)} + live {live}")
        if rp.num_completed != m.n_ok:
            P("C09:num-completed", f"pool {pool}: num_completed {rp.num_completed}, successes {m.n_ok}")

    def compare_global(self, results):
        P = self.problem
        # operator states of every pipeline (model state machine vs implementation)
        for pi, (mpipe, rp, rops, _) in self.pipes.items():
            real = [o.state().value for o in rops]
            if real != mpipe.states:
                sus = any({a, b} == {"suspending", "pending"} for a, b in zip(real, mpipe.states))
                P("C10:suspended-work-state" if sus else "C02:operator-states-differ", f"p{pi}: {real}, model {mpipe.states}")
        for r in results:
            self.real_results.setdefault(r.container_id, []).append(self.tick_no)
            if len(self.real_results[r.container_id]) > 1:
                P("C09:result-delivered-twice", f"{r.container_id} reported in ticks {self.real_results[r.container_id]}")
            states = [o.state().value for o in r.ops]
            if r.failed():
                k = 0
                while k < len(states) and states[k] == "completed":
                    k += 1
                if k == len(states) or any(s != "failed" for s in states[k:]):
                    P("C09:failed-result-states", f"{r.container_id}: {states} is not completed* failed+")
                self.stats["oom"] += 1
            else:
                if any(s != "completed" for s in states):
                    P("C09:success-with-unfinished-operator", f"{r.container_id}: {states}")
                self.stats["ok"] += 1
            mc = self.containers.get(r.container_id)
            if mc is None:
                P("C09:result-for-unknown-container", f"{r.container_id}")
        # an operator belongs to at most one live container
        seen = {}
        for p in self.ex.pools:
            for c in list(p.active_containers) + list(p.suspending_containers):
                for o in c.operators:
                    if o.state().value == "completed":
                        continue
                    if o.id in seen:
                        P("C02:operator-in-two-live-containers", f"{c.container_id} and {seen[o.id]}")
                    seen[o.id] = c.container_id
        tot = self.ex.num_completed()
        if tot != sum(m.n_ok for m in self.mp):
            P("C09:num-completed", f"executor num_completed {tot}, successes {sum(m.n_ok for m in self.mp)}")


def run_episode(spec):
    out = Outcome()
    ep = Episode(spec, out)
    if spec.get("debug_log"):
        from verif.runner import package_logging_on
        out.label("package_logging_on")
        with package_logging_on():
            ep.run()
    else:
        ep.run()
    s = ep.stats
    out.extra_evals = s["ticks"]
    out.label("pm")
    if s["oom"]:
        out.label("had_failure")
    if s["ok"]:
        out.label("had_success")
    if s["sus_accepted"]:
        out.label("had_suspension")
    if s["sus_done"]:
        out.label("suspension_finished")
    if s["rejects"]:
        out.label("ended_in_rejection")
    if spec["over"]:
        out.label("overcommit")
    if not spec["multi"]:
        out.label("single_op_mode")
    if spec["pools"] > 1:
        out.label("multi_pool")
    out.stats = s
    out.episode = ep
    return out
