"""The starter scheduler written by `eudoxia init -s <name>`: generated into .work/, imported and registered
once per process through the public decorators."""
import contextlib
import importlib.util
import io
import os
import shutil
import sys

NAME = "VerifStarter1"      # mixed case and a digit: any valid Python identifier is a valid scheduler name
_done = False


def ensure_starter():
    global _done
    if _done:
        return NAME
    from eudoxia.__main__ import main
    home = os.environ.get("VERIF_HOME", os.getcwd())
    d = os.path.join(home, ".work", f"starter-{os.getpid()}")
    os.makedirs(d, exist_ok=True)
    try:
        with contextlib.redirect_stdout(io.StringIO()), contextlib.redirect_stderr(io.StringIO()):
            main(["init", "-f", "-s", NAME, os.path.join(d, "params.toml")])
        spec = importlib.util.spec_from_file_location(NAME, os.path.join(d, NAME + ".py"))
        mod = importlib.util.module_from_spec(spec)
        spec.loader.exec_module(mod)
        sys.modules[NAME] = mod
    finally:
        shutil.rmtree(d, ignore_errors=True)
    _done = True
    return NAME
