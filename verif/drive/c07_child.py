"""Child process of the C07 check: reads {"history": [case...], "target": case, "repeat": n} on stdin, runs the
history simulations, then the target n times, and prints the canonicalised tick-by-tick logs as JSON."""
import json
import math
import sys


def canon_float(v):
    if isinstance(v, float) and math.isnan(v):
        return "nan"
    if hasattr(v, "item"):
        v = v.item()
        if isinstance(v, float) and math.isnan(v):
            return "nan"
    return v


def canonical_log(rec):
    cmap, pmap = {}, {}

    def cid(x):
        return cmap.setdefault(x, len(cmap))

    def pid(x):
        return pmap.setdefault(x, len(pmap))

    ticks = []
    for tr in rec.ticks:
        arr = []
        for p_id in tr.arrivals:
            p = rec.pipelines[p_id]
            ops = list(p.values.node_lookup.values())
            arr.append([pid(p_id), p.pipeline_id, p.priority.name,
                        [[sorted(ops.index(q) for q in o.parents),
                          [[s.baseline_cpu_seconds, s.memory_gb, s.storage_read_gb, s.scaling_func.__name__] for s in o.get_segments()]]
                         for o in ops]])
        asg = [[a.pool, a.cpu, a.ram, a.prio, [[pid(x), i] for x, i in a.ops]] for a in tr.asg]
        sus = [[cid(c), pool] for c, pool in tr.sus]
        res = None
        if tr.results is not None:
            res = [[cid(r.cid), r.pool, r.failed, r.error, [[pid(x), i] for x, i in r.ops], r.states] for r in tr.results]
        ticks.append([arr, sus, asg, res])
    stats = None
    if rec.stats is not None:
        s = rec.stats

        def ps(x):
            return [x.arrival_count, x.completion_count, canon_float(x.mean_latency_seconds), canon_float(x.p99_latency_seconds)]

        stats = [s.pipelines_created, s.containers_completed, canon_float(s.throughput), canon_float(s.p99_latency), s.assignments,
                 s.suspensions, s.failures, sorted(s.failure_error_counts.items()), ps(s.pipelines_all), ps(s.pipelines_query),
                 ps(s.pipelines_interactive), ps(s.pipelines_batch)]
    exc = None if rec.exception is None else [type(rec.exception).__name__, rec.exception_tick]
    return {"ticks": ticks, "stats": stats, "exception": exc}


def main():
    import logging
    logging.disable(logging.CRITICAL)
    import eudoxia  # noqa
    logging.disable(logging.CRITICAL)
    from verif.checks._sim_common import run_sim
    doc = json.load(sys.stdin)
    for h in doc.get("history", []):
        if doc.get("defaults_idiom"):
            # the common way of configuring a run: take the defaults, update them in place
            from eudoxia.simulator import get_param_defaults
            p = get_param_defaults()
            p.update(h["params"])
            h = dict(h)
            h["params"] = p
        run_sim(h)
    runs = []
    for _ in range(doc.get("repeat", 1)):
        rec, _params = run_sim(doc["target"])
        runs.append(canonical_log(rec))
    json.dump({"runs": runs}, sys.stdout, default=canon_float)


if __name__ == "__main__":
    main()
