import fz3, sys
v, cfg = fz3.run(int(sys.argv[1]), sys.argv[2])
print(cfg); 
for x in v[:8]: print(x)
