import logging, sys, random, traceback, collections
logging.disable(logging.CRITICAL)
from eudoxia.executor import Executor
from eudoxia.scheduler import Scheduler
from eudoxia.workload import OperatorState as S
from eudoxia.utils import Priority
from fz import rand_pipeline

def ready(p, states=(S.PENDING, S.FAILED)):
    st = p.runtime_status().operator_states
    return [op for op, s in st.items() if s in states and all(st[q] == S.COMPLETED for q in op.parents)]

def run(seed, algo):
    r = random.Random(seed)
    moc = r.random() < 0.5
    npools = r.randint(1,4)
    cpus = r.choice([1,2,3,4,8,16]); ram = r.choice([0.5,1,2.5,8,10,30,64,100,256,500])
    tps = r.choice([1,2,3,5,10,10,100])
    oc = algo == "overbook"
    ex = Executor(npools, cpus, ram, tps, multi_operator_containers=moc, allow_memory_overcommit=oc)
    s = Scheduler(ex, algo, multi_operator_containers=moc, allow_memory_overcommit=oc)
    T = r.choice([20, 60, 200])
    arrivals = collections.defaultdict(list)
    npl = r.randint(1, 14)
    for i in range(npl):
        arrivals[r.randint(0, T//2)].append(rand_pipeline(r, f"p{i}"))
    res = []; known = []; first = {}; fails = collections.Counter(); abandoned_at = {}
    cfg = (algo, moc, npools, cpus, ram, tps, T, npl)
    viol = []; stats = collections.Counter()
    for t in range(T):
        new = arrivals.get(t, [])
        for i,p in enumerate(new): known.append(p); p._arr = (t, i)
        for x in res:
            if x.failed():
                pid = x.ops[0].pipeline.pipeline_id; fails[pid] += 1; stats['fail'] += 1
        avail = [(pl.avail_cpu_pool, pl.avail_ram_pool) for pl in ex.pools]
        hadfail = {p.pipeline_id: p.runtime_status().state_counts[S.FAILED] > 0 for p in known}
        rdy_before = {p.pipeline_id: list(ready(p)) for p in known}
        sus, asg = s.run_one_tick(res, new)
        if sus: viol.append(("suspends", t))
        perpool = collections.Counter(a.pool_id for a in asg)
        for i,a in enumerate(asg):
            pl = a.ops[0].pipeline
            if pl.pipeline_id not in first: first[pl.pipeline_id] = (t, i)
        if algo == "naive":
            for pid, n in perpool.items():
                if n > 1: viol.append(("naive>1/pool", t))
            for a in asg:
                if (a.cpu, a.ram) != avail[a.pool_id]: viol.append(("naive-notall", t, a.cpu, a.ram, avail[a.pool_id]))
                if hadfail[a.pipeline_id]: viol.append(("naive-retry", t))
                if not moc and (len(a.ops) != 1 or a.ops[0] not in rdy_before[a.pipeline_id]): viol.append(("naive-solo", t))
        else:
            triggered = bool(new or res)
            rem = [c for c,_ in avail]
            for a in asg:
                rem[a.pool_id] -= 1
                if len(a.ops)!=1 or a.cpu!=1 or a.ram != ex.pools[a.pool_id].max_ram_pool or a.ops[0] not in rdy_before[a.pipeline_id]:
                    viol.append(("ob-shape", t))
                if fails[a.pipeline_id] >= 3: viol.append(("ob-abandon", t)); 
            if any(x < 0 for x in rem): viol.append(("ob-cpu", t))
            if triggered:
                for p in known:
                    if fails[p.pipeline_id] >= 3: continue
                    w = ready(p)
                    if w and any(x >= 1 for x in rem): viol.append(("ob-workcons", t, p.pipeline_id, rem)); stats['x']+=1
            for pl in ex.pools:
                pass
        res = ex.run_one_tick(sus, asg)
        if algo=="overbook":
            for pl in ex.pools:
                if len(pl.active_containers) > pl.max_cpu_pool: viol.append(("ob-count", t))
    if algo=="naive":
        seq = sorted((p._arr, first[p.pipeline_id]) for p in known if p.pipeline_id in first)
        f = [x[1] for x in seq]
        if f != sorted(f): viol.append(("order", seq))
        unserved = [p._arr for p in known if p.pipeline_id not in first]
        served = [p._arr for p in known if p.pipeline_id in first]
        if unserved and served and min(unserved) < max(served): viol.append(("order-skip", min(unserved), max(served)))
    return viol, cfg, stats

if __name__ == "__main__":
    lo, hi, algo = int(sys.argv[1]), int(sys.argv[2]), sys.argv[3]
    buckets = collections.defaultdict(list); tot = collections.Counter()
    for seed in range(lo, hi):
        try:
            v, cfg, st = run(seed, algo); tot.update(st)
        except BaseException as e:
            tb = traceback.extract_tb(e.__traceback__)[-1]
            v, cfg = [("EXC", type(e).__name__, str(e)[:60], tb.lineno)], None
        for x in v[:1]:
            buckets[x[0]].append((seed, cfg, x))
    for k, v in buckets.items():
        print(len(v), k, v[0])
    print("done", hi-lo, dict(tot))
