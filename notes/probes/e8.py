import io, logging; logging.disable(logging.CRITICAL)
from eudoxia.workload.csv_io import CSVWorkloadReader
from eudoxia.workload.workload import WorkloadTrace
for tps in [1,2,3,7,10,100,1000,100000]:
    tl = 1.0/tps
    bad_gen = sum(1 for k in range(20000) if (k*tl)/tl > k)
    bad_dec = sum(1 for k in range(20000) if float(repr(k/tps))/tl > k)
    print(tps, "gentrace-written late:", bad_gen, " decimal grid late:", bad_dec, "of 20000")
# concrete: 1.1 at 10 tps
csv = "pipeline_id,arrival_seconds,priority,operator_id,parents,baseline_cpu_seconds,cpu_scaling,memory_gb,storage_read_gb\np1,1.1,QUERY,op1,,1,const,,1\n"
t = WorkloadTrace(CSVWorkloadReader(io.StringIO(csv)), 10)
for i in range(14):
    if t.run_one_tick(): print("1.1s@10tps delivered at tick", i)
