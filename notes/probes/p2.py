"""Prototype: ModelPool differential vs real Executor under random command scripts (C03/04/09/10/11)."""
import logging; logging.disable(logging.CRITICAL)
import math, random, sys, collections, traceback
from fractions import Fraction as F
from eudoxia.executor import Executor
from eudoxia.executor.container import Container
from eudoxia.executor.assignment import Assignment, Suspend
from eudoxia.workload.pipeline import Segment, Pipeline
from eudoxia.workload import OperatorState as S
from eudoxia.utils import Priority
TAU = 1e-6

class MC:  # model container
    def __init__(s, cid, pool, ops_plan, cpu, ram, opkeys):
        s.cid=cid; s.pool=pool; s.cpu=cpu; s.ram=ram; s.opkeys=opkeys
        s.plan = ops_plan       # list per op of list of demand per tick
        s.oi=0; s.ti=0; s.usage=0.0; s.can_suspend=False; s.where='active'; s.sus_left=None; s.done=None
class Model:
    def __init__(s, npools, cpus, ram, tps, oc, moc):
        s.tps=tps; s.oc=oc; s.moc=moc
        s.pools=[dict(cap_cpu=cpus, cap_ram=ram, free_cpu=cpus, free_ram=ram, active=[], suspending=[], suspended=[]) for _ in range(npools)]
        s.opstate={}  # opkey -> state str
        s.counts=collections.Counter()
    def tick(s, suspensions, assignments):
        """assignments: list of (pool, cid, plan, cpu, ram, opkeys). returns expected per-pool: (results list of (cid, ok), candidates for pool-kill validation)"""
        out=[]
        for pid, P in enumerate(s.pools):
            for cid in [c for (pp,c) in suspensions if pp==pid]:
                c = next(x for x in P['active'] if x.cid==cid)
                assert c.can_suspend
                c.where='suspending'; c.sus_left=max(1, math.floor(F(c.ram)/20*s.tps))
                P['active'].remove(c); P['suspending'].append(c)
                for k in c.opkeys[c.oi:]: s.opstate[k]='suspending'
            for (pp,cid,plan,cpu,ram,opkeys) in assignments:
                if pp!=pid: continue
                c = MC(cid,pid,plan,cpu,ram,opkeys); P['free_cpu']-=cpu; P['free_ram']-=ram; P['active'].append(c); s.counts['accepted']+=1
            for c in list(P['suspending']):
                c.sus_left-=1
                if c.sus_left==0:
                    P['free_cpu']+=c.cpu; P['free_ram']+=c.ram; P['suspending'].remove(c); P['suspended'].append(c); c.where='suspended'; s.counts['suspended']+=1
                    for k in c.opkeys[c.oi:]: s.opstate[k]='pending'
            results=[]
            for c in P['active']:
                # advance one tick
                if c.ti==0: s.opstate[c.opkeys[c.oi]]='running'
                d = c.plan[c.oi][c.ti]; c.usage=d; c.can_suspend=False
                if d > c.ram:   # individual oom (generator keeps away from boundary unless exact)
                    c.done='oom-ind'; continue
                c.ti+=1
                if c.ti==len(c.plan[c.oi]):
                    s.opstate[c.opkeys[c.oi]]='completed'; c.oi+=1; c.ti=0
                    if c.oi==len(c.plan): c.done='ok'; c.usage=0.0
                    else: c.can_suspend=True
            out.append(P)
        return out
    def finish_pool(s, pid, real_failed_cids):
        """after observing which containers failed in reality, validate + adopt. returns list of problems"""
        P=s.pools[pid]; probs=[]
        ind = {c.cid for c in P['active'] if c.done=='oom-ind'}
        okc = {c.cid for c in P['active'] if c.done=='ok'}
        for cid in ind:
            if cid not in real_failed_cids: probs.append(('ind-oom-not-killed', cid))
        for c in P['active']:
            if c.done=='oom-ind': c.usage=0.0
        extra = [cid for cid in real_failed_cids if cid not in ind]
        elig = [c for c in P['active'] if c.done is None and c.usage>0]
        total = sum(c.usage for c in P['active'] if c.done is None)
        score = {c.cid: c.usage*c.usage/c.ram for c in elig}
        if extra:
            if not s.oc and total <= P['cap_ram']+TAU: probs.append(('pool-kill-within-capacity', extra, total))
            if total <= P['cap_ram']-TAU: probs.append(('kill-not-needed', extra, total))
            for cid in extra:
                if cid not in score: probs.append(('victim-not-eligible', cid, [(c.cid,c.done,c.usage) for c in P['active']])); continue
            vs = [cid for cid in extra if cid in score]
            if vs:
                minv = min(score[v] for v in vs)
                for c in elig:
                    if c.cid not in extra and score[c.cid] > minv + TAU: probs.append(('survivor-higher-score', c.cid, score[c.cid], minv))
                rem = total - sum(c.usage for c in elig if c.cid in extra)
                lowest = min(vs, key=lambda v: score[v])
                rem_wo = rem + next(c.usage for c in elig if c.cid==lowest)
                if rem_wo <= P['cap_ram']-TAU: probs.append(('not-minimal', lowest, rem_wo))
                if rem > P['cap_ram']+TAU: probs.append(('insufficient', rem))
        else:
            if total > P['cap_ram']+TAU: probs.append(('over-capacity-no-kill', total))
        for c in list(P['active']):
            if c.cid in real_failed_cids and c.done is None: c.done='oom-pool'
            if c.done is not None:
                P['active'].remove(c); P['free_cpu']+=c.cpu; P['free_ram']+=c.ram
                if c.done=='ok': s.counts['ok']+=1
                else:
                    s.counts['failed']+=1
                    for k in c.opkeys[c.oi:]: s.opstate[k]='failed'
        return probs, okc

def mid(n, tps): return (n + 0.5) / tps      # seconds giving n ticks unambiguously
def run(seed, verbose=False):
    r = random.Random(seed)
    tps = r.choice([1,2,3,5,10,20,100]); npools=r.randint(1,3); cpus=r.choice([2,4,8,16]); capram=r.choice([10,20,50,100,256])
    oc = r.random()<0.5; moc = r.random()<0.8
    Container.next_container_num = 1
    ex = Executor(npools, cpus, capram, tps, multi_operator_containers=moc, allow_memory_overcommit=oc)
    M = Model(npools, cpus, capram, tps, oc, moc)
    nextc=1; pipes=[]; stats=collections.Counter()
    realops={}  # opkey -> real op
    T = r.choice([30,80,200])
    for t in range(T):
        sus=[]; asg_m=[]; asg_r=[]
        # suspensions: choose suspendable containers w.p.
        for pid,P in enumerate(M.pools):
            for c in P['active']:
                if c.can_suspend and r.random()<0.4:
                    sus.append((pid,c.cid))
        # assignments
        for pid,P in enumerate(M.pools):
            fc, fr = P['free_cpu'], P['free_ram']
            for _ in range(r.choice([0,0,1,1,2,3])):
                if fc < 1: break
                nops = r.randint(1,3) if moc else 1
                cpu = r.randint(1, max(1,min(fc,4)))
                if oc: ram = r.choice([capram*0.3, capram*0.6, capram, capram*1.5])
                else:
                    if fr <= 0.5: break
                    ram = r.choice([fr, fr/2, min(fr, 5), min(fr, 1.5)])
                xs = F(ram)/20*tps
                if abs(xs-round(xs)) < F(1,10**6): ram = ram*1.03
                if (not oc) and ram > fr: continue
                plan=[]; p = Pipeline(f"p{len(pipes)}", r.choice(list(Priority))); pipes.append(p); prev=None; ops=[]; keys=[]
                for oi in range(nops):
                    io_n = r.choice([0,0,1,2,5]); cpu_n = r.choice([0,1,1,3,8])
                    kind = r.random()
                    if kind<0.4:
                        mem = r.choice([0, 0.5, ram*0.5, ram, ram*0.9, ram*1.2, capram*0.4])
                        seg = Segment(baseline_cpu_seconds=mid(cpu_n,tps) if cpu_n else 0, cpu_scaling="const", memory_gb=mem, storage_read_gb=(mid(io_n,tps)*20 if io_n else 0))
                        dem=[float(mem)]*(io_n+cpu_n)
                    else:
                        read = mid(io_n,tps)*20 if io_n else 0
                        seg = Segment(baseline_cpu_seconds=mid(cpu_n,tps) if cpu_n else 0, cpu_scaling="const", storage_read_gb=read)
                        dem=[(i+1)*20.0/tps for i in range(io_n)] + [float(read)]*cpu_n
                    if not dem: dem=[seg.get_peak_memory_gb()]   # zero-tick op occupies one tick at peak (cpu phase)
                    # keep ramps away from ram boundary
                    ramp = dem[:io_n] if kind>=0.4 else []
                    if any(abs(d-ram) < 1e-6*max(1,ram) for d in ramp): dem=None
                    if dem is None: break
                    o = p.new_operator([prev] if prev else None); o.add_segment(seg); prev=o; ops.append(o); plan.append(dem); keys.append((p.pipeline_id, oi))
                if len(ops)!=nops: continue
                for k,o in zip(keys,ops): realops[k]=o; M.opstate[k]='assigned'
                cid=f"c{nextc}"; nextc+=1
                asg_m.append((pid,cid,plan,cpu,ram,keys)); asg_r.append(Assignment(ops,cpu,ram,p.priority,pid,p.pipeline_id))
                fc-=cpu; fr-=ram
        M.tick(sus, asg_m)
        res = ex.run_one_tick([Suspend(c,p) for p,c in sus], asg_r)
        stats['sus']+=len(sus); stats['asg']+=len(asg_r)
        for pid,P in enumerate(M.pools):
            failed = {x.container_id for x in res if x.pool_id==pid and x.failed()}
            okreal = {x.container_id for x in res if x.pool_id==pid and not x.failed()}
            probs, okc = M.finish_pool(pid, failed)
            if okc != okreal: probs.append(('success-set', okc, okreal))
            RP = ex.pools[pid]
            if RP.avail_cpu_pool != P['free_cpu']: probs.append(('free_cpu', RP.avail_cpu_pool, P['free_cpu']))
            if abs(RP.avail_ram_pool - P['free_ram'])>1e-9*capram: probs.append(('free_ram', RP.avail_ram_pool, P['free_ram']))
            for name, lst in (('active',RP.active_containers),('suspending',RP.suspending_containers),('suspended',RP.suspended_containers)):
                if [c.container_id for c in lst] != [c.cid for c in P[name]]: probs.append(('list',name,[c.container_id for c in lst],[c.cid for c in P[name]]))
            tot = sum(c.usage for c in P['active'])
            if abs(RP.get_consumed_ram_gb()-tot) > 1e-6: probs.append(('consumed', RP.get_consumed_ram_gb(), tot))
            for rc, mc in zip(RP.active_containers, P['active']):
                if abs(rc.get_current_memory_usage()-mc.usage)>1e-9*max(1,mc.usage): probs.append(('usage', rc.container_id, rc.get_current_memory_usage(), mc.usage))
                if rc.can_suspend_container()!=mc.can_suspend: probs.append(('can_suspend', rc.container_id))
            if len(failed)>=2: stats['multi_victim_ticks']+=1
            if failed and okreal: stats['kill+complete']+=1
            if probs: return (seed, t, probs[:3], (tps,npools,cpus,capram,oc,moc)), stats
        for k,o in realops.items():
            if o.state().value != M.opstate[k]: return (seed, t, ('opstate', k, o.state().value, M.opstate[k])), stats
    stats.update(M.counts)
    return None, stats

if __name__=="__main__":
    lo,hi=int(sys.argv[1]),int(sys.argv[2]); tot=collections.Counter(); bad=[]
    for seed in range(lo,hi):
        try:
            b, st = run(seed)
        except BaseException as e:
            tb=traceback.extract_tb(e.__traceback__)[-1]; b=(seed,'EXC',type(e).__name__,str(e)[:80],tb.filename.split('/')[-1],tb.lineno); st={}
        tot.update(st)
        if b: bad.append(b)
    print(dict(tot)); print(len(bad)); 
    for b in bad[:6]: print(b)
