import logging; logging.disable(logging.CRITICAL)
import io, random, csv
from eudoxia.workload.csv_io import CSVWorkloadReader, CSVWorkloadWriter, WorkloadTraceGenerator
from eudoxia.workload.workload import Workload
from eudoxia.workload.pipeline import Pipeline, Segment
from eudoxia.utils import Priority
SCAL = ["const","log","sqrt","linear3","linear7","squared","exp"]
class W(Workload):
    def __init__(s, sched): s.sched=sched; s.t=0
    def run_one_tick(s):
        out = s.sched.get(s.t, []); s.t+=1; return out
def fp(p):
    ops = list(p.values.node_lookup.values())
    return (p.priority.name, [(sorted(ops.index(q) for q in o.parents), float(o.values[0].baseline_cpu_seconds), [k for k,f in Segment.SCALING_FUNCS.items() if f==o.values[0].scaling_func][0], None if o.values[0].memory_gb is None else float(o.values[0].memory_gb), float(o.values[0].storage_read_gb)) for o in ops])
bad=0
for seed in range(2000):
    r = random.Random(seed)
    tps = r.choice([1,2,10,100,1000]); T = 50
    sched = {}
    n=0
    for _ in range(r.randint(1,8)):
        t = r.randint(0,T-1)
        p = Pipeline(f"x{n}", r.choice(list(Priority))); n+=1
        ops=[]
        for i in range(r.randint(1,6)):
            par = r.sample(ops, min(len(ops), r.choice([0,1,1,2,3])))
            o = p.new_operator(par or None)
            o.add_segment(Segment(baseline_cpu_seconds=r.choice([0,1,15,0.1,1e-9,1e12,3.3333333333333335, 7]), cpu_scaling=r.choice(SCAL), memory_gb=r.choice([None,None,0,0.0,1.5,64]), storage_read_gb=r.choice([0,55,37.5,1e-5,0.1+0.2])))
            ops.append(o)
        sched.setdefault(t, []).append(p)
    want = [(t, fp(p)) for t in sorted(sched) for p in sched[t]]
    buf = io.StringIO(); w = CSVWorkloadWriter(buf)
    for row in WorkloadTraceGenerator(W(sched), tps, T/tps).generate_rows(): w.write_row(row)
    text = buf.getvalue()
    got = [(pa.arrival_seconds, fp(pa.pipeline)) for b in CSVWorkloadReader(io.StringIO(text)).batch_by_arrival() for pa in b]
    if [g[1] for g in got] != [x[1] for x in want] or [g[0] for g in got] != [t*(1.0/tps) for t,_ in want]:
        bad+=1
        if bad<3: print("MISMATCH", seed, want[:2], got[:2])
    # read -> write again
    tr = CSVWorkloadReader(io.StringIO(text)).get_workload(tps)
    buf2 = io.StringIO(); w2 = CSVWorkloadWriter(buf2)
    for row in WorkloadTraceGenerator(tr, tps, (T+5)/tps).generate_rows(): w2.write_row(row)
    r1 = list(csv.DictReader(io.StringIO(text))); r2 = list(csv.DictReader(io.StringIO(buf2.getvalue())))
    for a in r1: a.pop('arrival_seconds')
    for a in r2: a.pop('arrival_seconds')
    if r1 != r2:
        bad+=1
        if bad<3: print("RW MISMATCH", seed, [(a,b) for a,b in zip(r1,r2) if a!=b][:2])
print("bad", bad)
# show diff for seed 1
import itertools
