import math
from fractions import Fraction
def snap(x, tps): return math.floor(x*tps)/tps
for tps in [1,3,10,20,100,1000,100000]:
    n=20000; bad_grid=0; nonidem=0; up=0; toofar=0
    for k in range(n):
        x = float(repr(k/tps))
        s = snap(x, tps)
        if s != x: bad_grid += 1
        if snap(s, tps) != s: nonidem += 1
    import random
    r = random.Random(1)
    for _ in range(n):
        x = round(r.uniform(0, 500), r.choice([1,2,3,4,6]))
        s = snap(x, tps); s2 = snap(s, tps)
        if s2 != s: nonidem += 1
        if Fraction(s) > Fraction(x): up += 1
        if Fraction(x) - Fraction(s) >= Fraction(1, tps): toofar += 1
    print(tps, "grid moved:", bad_grid, "non-idempotent:", nonidem, "up:", up, ">=1tick:", toofar)
