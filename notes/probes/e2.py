import logging
logging.disable(logging.CRITICAL)
import traceback
from eudoxia.executor import Executor
from eudoxia.executor.resource_pool import ResourcePool
from eudoxia.executor.assignment import Assignment, Suspend
from eudoxia.workload.pipeline import Segment, Pipeline
from eudoxia.workload import OperatorState
from eudoxia.utils import Priority

def chain(n, segs, pid="p", prio=Priority.BATCH_PIPELINE):
    p = Pipeline(pid, prio); prev=None; ops=[]
    for i in range(n):
        op = p.new_operator([prev] if prev else None)
        for s in segs[i]: op.add_segment(Segment(**s))
        prev = op; ops.append(op)
    return p, ops

def guard(f):
    try: return f()
    except BaseException as e:
        tb = traceback.extract_tb(e.__traceback__)[-1]
        return ("EXC", type(e).__name__, str(e)[:60], f"{tb.filename.split('/')[-1]}:{tb.lineno}")

print("--- zero tick single op, tps=1, cpu 0.5s")
def t():
    pool = ResourcePool(0, 10, 100, 1)
    p, ops = chain(1, [[dict(baseline_cpu_seconds=0.5, memory_gb=1)]])
    a = Assignment(ops, 1, 10, p.priority, 0, "p")
    r = pool.run_one_tick([], [a]); return r, [o.state() for o in ops]
print(guard(t))
print("--- zero tick op in middle of chain")
def t():
    pool = ResourcePool(0, 10, 100, 1)
    p, ops = chain(3, [[dict(baseline_cpu_seconds=1, memory_gb=1)],[dict(baseline_cpu_seconds=0.5, memory_gb=1)],[dict(baseline_cpu_seconds=1, memory_gb=1)]])
    a = Assignment(ops, 1, 10, p.priority, 0, "p")
    out=[]
    for i in range(5):
        out.append((pool.run_one_tick([], [a] if i==0 else []), [o.state().value for o in ops]))
    return out
print(guard(t))
print("--- multi-seg op with zero-tick last seg")
def t():
    pool = ResourcePool(0, 10, 100, 1)
    p, ops = chain(1, [[dict(baseline_cpu_seconds=1, memory_gb=1), dict(baseline_cpu_seconds=0.2, memory_gb=1)]])
    a = Assignment(ops, 1, 10, p.priority, 0, "p")
    out=[]
    for i in range(4):
        out.append((pool.run_one_tick([], [a] if i==0 else []), [o.state().value for o in ops]))
    return out
print(guard(t))

print("--- suspension 0 ticks: ram 10 at tps 1")
def t():
    pool = ResourcePool(0, 10, 100, 1)
    p, ops = chain(2, [[dict(baseline_cpu_seconds=1, memory_gb=5)],[dict(baseline_cpu_seconds=3, memory_gb=5)]])
    a = Assignment(ops, 2, 10, p.priority, 0, "p")
    pool.run_one_tick([], [a])
    c = pool.active_containers[0]
    out=[("can", c.can_suspend_container(), pool.consumed_ram_gb)]
    pool.run_one_tick([Suspend(c.container_id, 0)], [])
    for i in range(5):
        out.append((len(pool.active_containers), len(pool.suspending_containers), len(pool.suspended_containers), pool.avail_cpu_pool, pool.avail_ram_pool, pool.consumed_ram_gb, [o.state().value for o in ops], c._suspend_ticks_left))
        pool.run_one_tick([], [])
    return out
for x in guard(t): print("  ", x)
print("--- suspension 2 ticks: ram 40 at tps 1; consumed after")
def t():
    pool = ResourcePool(0, 10, 100, 1)
    p, ops = chain(2, [[dict(baseline_cpu_seconds=1, memory_gb=5)],[dict(baseline_cpu_seconds=3, memory_gb=5)]])
    a = Assignment(ops, 2, 40, p.priority, 0, "p")
    pool.run_one_tick([], [a])
    c = pool.active_containers[0]
    out=[("can", c.can_suspend_container(), pool.consumed_ram_gb)]
    pool.run_one_tick([Suspend(c.container_id, 0)], [])
    for i in range(5):
        out.append((len(pool.active_containers), len(pool.suspending_containers), len(pool.suspended_containers), pool.avail_cpu_pool, pool.avail_ram_pool, pool.consumed_ram_gb, [o.state().value for o in ops], c._suspend_ticks_left))
        pool.run_one_tick([], [])
    return out
for x in guard(t): print("  ", x)
print("--- out-of-range pool")
def t():
    ex = Executor(2, 10, 100, 10)
    p, ops = chain(1, [[dict(baseline_cpu_seconds=1, memory_gb=5)]])
    a = Assignment(ops, 2, 40, p.priority, 5, "p")
    r = ex.run_one_tick([], [a])
    return r, [o.state().value for o in ops], [len(pl.active_containers) for pl in ex.pools]
print(guard(t))
print("--- suspend unknown container")
def t():
    ex = Executor(2, 10, 100, 10)
    return ex.run_one_tick([Suspend("c99999", 0)], [])
print(guard(t))
print("--- suspend mid-op")
def t():
    pool = ResourcePool(0, 10, 100, 10)
    p, ops = chain(2, [[dict(baseline_cpu_seconds=1, memory_gb=5)],[dict(baseline_cpu_seconds=3, memory_gb=5)]])
    a = Assignment(ops, 2, 40, p.priority, 0, "p")
    pool.run_one_tick([], [a])
    c = pool.active_containers[0]
    return pool.run_one_tick([Suspend(c.container_id, 0)], [])
print(guard(t))
