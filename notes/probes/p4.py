import logging; logging.disable(logging.CRITICAL)
import random, collections, math
from eudoxia.workload import WorkloadGenerator
from eudoxia.simulator import get_param_defaults
from eudoxia.workload.pipeline import Segment
from eudoxia.utils import Priority
def law(seg): return [k for k,f in Segment.SCALING_FUNCS.items() if f==seg.scaling_func][0]
PROT = {(1,'const',55),(2,'sqrt',55),(5,'linear3',45),(15,'linear3',37.5),(20,'linear7',30),(40,'linear7',20),(80,'squared',10)}
def sample(**kw):
    p = get_param_defaults(); p.update(kw)
    g = WorkloadGenerator(**p)
    ev=[]; t=0
    while len(ev) < kw.get('_events', 400) and t < 5_000_000:
        ps = g.run_one_tick()
        if ps: ev.append((t, ps))
        t+=1
    return ev
worst = collections.defaultdict(float)
for seed in range(40):
    r = random.Random(seed)
    q = r.choice([0,0.1,0.25,0.5]); i = r.choice([0,0.2,0.3]); b = round(1-q-i, 10)
    nop = r.choice([1,2,5,10,20]); npi = r.choice([1,3,6]); w = r.choice([0.5, 5, 30]); tps = r.choice([10,100,1000])
    for ratio in (0.0, 1.0):
        ev = sample(random_seed=seed, query_prob=q, interactive_prob=i, batch_prob=b, num_operators=nop, num_pipelines=npi, waiting_seconds_mean=w, ticks_per_second=tps, cpu_io_ratio=ratio)
        pls = [p for _,ps in ev for p in ps]
        n = len(pls)
        for pr, pp in ((Priority.QUERY,q),(Priority.INTERACTIVE,i),(Priority.BATCH_PIPELINE,b)):
            f = sum(p.priority==pr for p in pls)/n
            sig = math.sqrt(max(pp*(1-pp),1e-12)/n)
            worst['prio_z'] = max(worst['prio_z'], abs(f-pp)/sig if pp not in (0,1) else (0 if f==pp else 99))
        nq = [len(p.values) for p in pls if p.priority!=Priority.QUERY]
        if nq:
            m = sum(nq)/len(nq); sig = (nop/4)/math.sqrt(len(nq)) + 1e-9
            worst['nops_dev'] = max(worst['nops_dev'], abs(m - nop))
        gaps = [b_[0]-a_[0] for a_,b_ in zip(ev, ev[1:])]
        mean_ticks = w*tps
        if mean_ticks >= 50:
            worst['gap_rel'] = max(worst['gap_rel'], abs(sum(gaps)/len(gaps) - mean_ticks)/mean_ticks)
        assert min(gaps) >= 1
        later = [ (o.values[0].baseline_cpu_seconds, law(o.values[0]), o.values[0].storage_read_gb) for p in pls if p.priority!=Priority.QUERY for o in list(p.values)[1:]]
        for x in later: assert x in PROT, x
        if ratio == 0.0: s0 = (sum(x[0]>=20 for x in later)/len(later)) if later else None
        else: s1 = (sum(x[0]>=20 for x in later)/len(later)) if later else None
    if s0 is not None and s1 is not None:
        worst['min_shift'] = min(worst.get('min_shift', 9), s1 - s0)
print(dict(worst))
