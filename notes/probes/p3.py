"""Prototype C13 oracle + known-finding signature."""
import logging; logging.disable(logging.CRITICAL)
import io, math, random, collections, sys
from fractions import Fraction as F
from eudoxia.workload.csv_io import CSVWorkloadReader
from eudoxia.workload.workload import WorkloadTrace
HDR="pipeline_id,arrival_seconds,priority,operator_id,parents,baseline_cpu_seconds,cpu_scaling,memory_gb,storage_read_gb\n"
def allowed(text, tps):
    x = F(text)*tps
    tau = max(F(1,10**6), F(1,10**9)*x)
    k = math.ceil(x)
    al = {k}
    m = round(x)
    if 0 <= x - m <= tau: al.add(m)      # within tau above an integer -> that integer too
    if 0 < m - x <= tau: al.add(m)       # (ceil already m)
    return al, (abs(x-m) <= tau, m)
def known(text, tps, delivered):
    al, (ongrid, m) = allowed(text, tps)
    return ongrid and delivered == m+1 and (float(text)/(1.0/tps) > m)
st = collections.Counter(); bad=[]
for seed in range(int(sys.argv[1]), int(sys.argv[2])):
    r = random.Random(seed)
    tps = r.choice([1,2,3,5,7,10,20,50,100,1000,10000,100000, r.randint(1,100000)])
    n = r.randint(1,12); T = r.choice([50, 400, 3000])
    ks = sorted(r.randint(0,T-1) for _ in range(n))
    texts=[]
    for k in ks:
        mode = r.random()
        if mode<0.3: t = repr(k*(1.0/tps))
        elif mode<0.6: t = repr(k/tps)
        elif mode<0.8: t = str(F(k, tps).limit_denominator(10**6).numerator/ F(k,tps).limit_denominator(10**6).denominator) if False else repr(round(k/tps, 6))
        else: t = repr((k + r.choice([0.001,0.25,0.5,0.9,0.999]))/tps)
        texts.append(t)
    # sort by numeric value to keep arrival order (float noise may reorder)
    texts.sort(key=lambda s: F(s))
    csv = HDR + "".join(f"p{i},{t},QUERY,op1,,1,const,,1\n" for i,t in enumerate(texts))
    tr = WorkloadTrace(CSVWorkloadReader(io.StringIO(csv)), tps)
    got = {}
    order=[]
    for tick in range(T+3):
        for p in tr.run_one_tick():
            if p.pipeline_id in got: bad.append((seed,'dup')); 
            got[p.pipeline_id]=tick; order.append(p.pipeline_id)
    for i,t in enumerate(texts):
        pid=f"p{i}"; al,_ = allowed(t,tps)
        if pid not in got:
            if min(al) <= T+2: bad.append((seed,'lost',t,tps))
            continue
        st['n']+=1
        if got[pid] in al: st['ok']+=1
        elif known(t,tps,got[pid]): st['known']+=1
        else: st['VIOL']+=1; bad.append((seed,t,tps,got[pid],sorted(al)))
    if order != [f"p{i}" for i in range(len(order))]: bad.append((seed,'order'))
print(dict(st)); print(bad[:8])
