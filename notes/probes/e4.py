import logging
logging.disable(logging.CRITICAL)
from eudoxia.executor.resource_pool import ResourcePool
from eudoxia.executor.assignment import Assignment, Suspend
from eudoxia.workload.pipeline import Segment, Pipeline
from eudoxia.utils import Priority
def chain(n, segs, pid):
    p = Pipeline(pid, Priority.BATCH_PIPELINE); prev=None; ops=[]
    for i in range(n):
        op = p.new_operator([prev] if prev else None)
        op.add_segment(Segment(**segs[i])); prev=op; ops.append(op)
    return p, ops
pool = ResourcePool(0, 10, 100, 10)   # no overcommit
p, ops = chain(2, [dict(baseline_cpu_seconds=0.2, memory_gb=90), dict(baseline_cpu_seconds=5, memory_gb=90)], "A")
a = Assignment(ops, 2, 100, p.priority, 0, "A")
pool.run_one_tick([], [a]); pool.run_one_tick([], [])
c = pool.active_containers[0]; print("can suspend", c.can_suspend_container(), "consumed", pool.consumed_ram_gb)
pool.run_one_tick([Suspend(c.container_id, 0)], [])
t=0
while pool.suspending_containers:
    pool.run_one_tick([], []); t+=1
print("suspended after", t+1, "ticks; avail", pool.avail_cpu_pool, pool.avail_ram_pool, "consumed", pool.consumed_ram_gb, "active", len(pool.active_containers))
p2, ops2 = chain(1, [dict(baseline_cpu_seconds=5, memory_gb=20)], "B")
b = Assignment(ops2, 2, 50, p2.priority, 0, "B")
r = pool.run_one_tick([], [b])
print("B result:", r, "consumed", pool.consumed_ram_gb)
