# float accounting stress: priority scheduler with fractional pool RAM, many jobs → sum of batch vs avail
import logging; logging.disable(logging.CRITICAL)
import random, traceback
from eudoxia.executor import Executor
from eudoxia.scheduler import Scheduler
from eudoxia.workload.pipeline import Segment, Pipeline
from eudoxia.utils import Priority
bad = 0
for seed in range(3000):
    r = random.Random(seed)
    ram = round(r.uniform(10.0, 400.0), r.choice([1,2,3]))
    cpus = r.choice([16, 32, 64, 100])
    algo = r.choice(["priority", "priority-pool"])
    ex = Executor(2, cpus, ram, 10, multi_operator_containers=True)
    s = Scheduler(ex, algo, multi_operator_containers=True)
    res = []
    try:
        for t in range(40):
            new = []
            if t % 3 == 0:
                for i in range(r.randint(5, 30)):
                    p = Pipeline(f"p{t}_{i}", r.choice(list(Priority)))
                    op = p.new_operator(); op.add_segment(Segment(baseline_cpu_seconds=r.choice([0.1, 0.5, 2]), memory_gb=r.choice([0.1, 1, 50])))
                    new.append(p)
            sus, asg = s.run_one_tick(res, new)
            res = ex.run_one_tick(sus, asg)
    except BaseException as e:
        bad += 1
        if bad < 6:
            tb = traceback.extract_tb(e.__traceback__)[-1]
            print(seed, algo, ram, cpus, type(e).__name__, str(e)[:80], tb.filename.split('/')[-1], tb.lineno)
print("bad", bad)
