import io, logging; logging.disable(logging.CRITICAL)
from eudoxia.workload.csv_io import CSVWorkloadReader
H="pipeline_id,arrival_seconds,priority,operator_id,parents,baseline_cpu_seconds,cpu_scaling,memory_gb,storage_read_gb\n"
cases = {
 "ok": "p1,0.0,QUERY,op1,,1,const,,1\np1,,,op2,op1,1,const,0,1\np2,1.0,BATCH_PIPELINE,op1,,1,const,,1\n",
 "missing priority first row": "p1,0.0,,op1,,1,const,,1\n",
 "missing arrival first row": "p1,,QUERY,op1,,1,const,,1\n",
 "missing arrival first row of 2nd pipeline": "p1,0.0,QUERY,op1,,1,const,,1\np2,,QUERY,op1,,1,const,,1\n",
 "priority on later row": "p1,0.0,QUERY,op1,,1,const,,1\np1,,QUERY,op2,op1,1,const,,1\n",
 "arrival on later row": "p1,0.0,QUERY,op1,,1,const,,1\np1,0.0,,op2,op1,1,const,,1\n",
 "arrival 0 on later row": "p1,0.0,QUERY,op1,,1,const,,1\np1,0,,op2,op1,1,const,,1\n",
 "unknown priority": "p1,0.0,URGENT,op1,,1,const,,1\n",
 "lowercase priority": "p1,0.0,query,op1,,1,const,,1\n",
 "unknown scaling": "p1,0.0,QUERY,op1,,1,cubic,,1\n",
 "undefined parent": "p1,0.0,QUERY,op1,,1,const,,1\np1,,,op2,op9,1,const,,1\n",
 "forward parent": "p1,0.0,QUERY,op1,op2,1,const,,1\np1,,,op2,,1,const,,1\n",
 "self parent": "p1,0.0,QUERY,op1,op1,1,const,,1\n",
 "dup operator id": "p1,0.0,QUERY,op1,,1,const,,1\np1,,,op1,,1,const,,1\np1,,,op3,op1,1,const,,1\n",
 "dup parent": "p1,0.0,QUERY,op1,,1,const,,1\np1,,,op2,op1;op1,1,const,,1\n",
 "interleaved pipeline ids": "p1,0.0,QUERY,op1,,1,const,,1\np2,0.0,QUERY,op1,,1,const,,1\np1,,,op2,op1,1,const,,1\n",
 "whitespace arrival": "p1, 0.5 ,QUERY,op1,,1,const,,1\n",
 "memory 0.0": "p1,0.0,QUERY,op1,,1,const,0.0,1\n",
 "memory blank-space": "p1,0.0,QUERY,op1,,1,const, ,1\n",
 "negative arrival": "p1,-1.0,QUERY,op1,,1,const,,1\n",
 "nan arrival": "p1,nan,QUERY,op1,,1,const,,1\np2,nan,QUERY,op1,,1,const,,1\n",
}
for name, body in cases.items():
    try:
        bs = list(CSVWorkloadReader(io.StringIO(H+body)).batch_by_arrival())
        desc = [[(pa.arrival_seconds, pa.pipeline.pipeline_id, pa.pipeline.priority.name, [(len(o.parents), o.values[0].memory_gb) for o in pa.pipeline.values.node_lookup.values()], len(list(pa.pipeline.values))) for pa in b] for b in bs]
        print(f"{name:45s} LOADED {desc}")
    except Exception as e:
        print(f"{name:45s} RAISES {type(e).__name__}: {str(e)[:70]}")
