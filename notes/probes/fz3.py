import logging, sys, random, traceback, collections
logging.disable(logging.CRITICAL)
from eudoxia.executor import Executor
from eudoxia.scheduler import Scheduler
from eudoxia.workload import OperatorState as S
from eudoxia.utils import Priority
from fz import rand_pipeline

def ready_pending(p):
    st = p.runtime_status().operator_states
    return [op for op, s in st.items() if s == S.PENDING and all(st[q] == S.COMPLETED for q in op.parents)]
def assignable(p):
    st = p.runtime_status().operator_states
    return [op for op, s in st.items() if s in (S.PENDING, S.FAILED)]

def run(seed, algo):
    r = random.Random(seed)
    moc = r.random() < 0.6 if algo=="priority" else True
    npools = 2 if algo=="priority-pool" else r.randint(1,3)
    cpus = r.choice([1,2,3,4,8,16,64]); ram = r.choice([0.5,1,2.5,8,10,30,64,100,256,500])
    tps = r.choice([1,2,3,5,10,10,100])
    ex = Executor(npools, cpus, ram, tps, multi_operator_containers=moc)
    s = Scheduler(ex, algo, multi_operator_containers=moc)
    T = r.choice([20, 60, 200])
    arrivals = collections.defaultdict(list)
    npl = r.randint(1, 14)
    for i in range(npl):
        arrivals[r.randint(0, T//2)].append(rand_pipeline(r, f"p{i}"))
    res = []; known = []; first = {}
    cfg = (algo, moc, npools, cpus, ram, tps, T, npl)
    viol = []
    for t in range(T):
        new = arrivals.get(t, [])
        for i,p in enumerate(new): known.append(p); p._arr = (t, i)
        avail = [(pl.avail_cpu_pool, pl.avail_ram_pool) for pl in ex.pools]
        cansus = {c.container_id: (c.can_suspend_container(), c.priority) for pl in ex.pools for c in pl.active_containers}
        sus, asg = s.run_one_tick(res, new)
        # after-round stats
        rem = [list(a) for a in avail]
        for a in asg:
            rem[a.pool_id][0] -= a.cpu; rem[a.pool_id][1] -= a.ram
        def depleted(pid): return rem[pid][0] <= 0 or rem[pid][1] <= 1e-12
        for i,a in enumerate(asg):
            pl = a.ops[0].pipeline
            if pl.pipeline_id not in first: first[pl.pipeline_id] = (t, i)
        waiting = [(p, ready_pending(p)) for p in known]
        waiting = [(p, w) for p, w in waiting if w]
        for p, w in waiting:
            pools = range(npools) if algo=="priority" else ([0] if p.priority != Priority.BATCH_PIPELINE else [1])
            if not all(depleted(pid) for pid in pools):
                viol.append(("workcons", t, p.pipeline_id, p.priority.name, rem))
        for a in asg:
            for p, w in waiting:
                if p.priority.value < a.priority.value and (algo=="priority" or (a.pool_id==0 and p.priority!=Priority.BATCH_PIPELINE)):
                    viol.append(("prio", t, p.pipeline_id, a.pipeline_id))
        if algo=="priority-pool":
            for a in asg:
                want = 1 if a.priority == Priority.BATCH_PIPELINE else 0
                if a.pool_id != want or a.ops[0].pipeline.priority != a.priority: viol.append(("pool", t))
            if sus: viol.append(("pp-suspends", t))
        if sus:
            qwait = sum(1 for p in known if p.priority==Priority.QUERY and assignable(p))
            if len(sus) > qwait: viol.append(("sus-count", t, len(sus), qwait))
            for x in sus:
                cs, pr = cansus[x.container_id]
                if not cs or pr == Priority.QUERY: viol.append(("sus-bad", t))
        res = ex.run_one_tick(sus, asg)
    # arrival order of first containers within priority
    for pr in Priority:
        seq = sorted((p._arr, first[p.pipeline_id]) for p in known if p.priority==pr and p.pipeline_id in first)
        f = [x[1] for x in seq]
        if f != sorted(f): viol.append(("order", pr.name, seq))
        # also: a pipeline never served while a later one of same prio is served
        unserved = [p._arr for p in known if p.priority==pr and p.pipeline_id not in first]
        served = [p._arr for p in known if p.priority==pr and p.pipeline_id in first]
        if unserved and served and min(unserved) < max(served): viol.append(("order-skip", pr.name, min(unserved), max(served)))
    return viol, cfg

if __name__ == "__main__":
    lo, hi, algo = int(sys.argv[1]), int(sys.argv[2]), sys.argv[3]
    buckets = collections.defaultdict(list)
    for seed in range(lo, hi):
        try:
            v, cfg = run(seed, algo)
        except BaseException as e:
            tb = traceback.extract_tb(e.__traceback__)[-1]
            v, cfg = [("EXC", type(e).__name__, str(e)[:60], tb.lineno)], None
        for x in v[:1]:
            buckets[x[0]].append((seed, cfg, x))
    for k, v in buckets.items():
        print(len(v), k, v[0])
    print("done", hi-lo)
