import logging
logging.disable(logging.CRITICAL)
import traceback
from eudoxia.executor import Executor
from eudoxia.scheduler import Scheduler
from eudoxia.executor.assignment import Assignment, Suspend
from eudoxia.workload.pipeline import Segment, Pipeline
from eudoxia.workload import OperatorState
from eudoxia.utils import Priority

def chain(n, seg, pid, prio):
    p = Pipeline(pid, prio); prev=None; ops=[]
    for i in range(n):
        op = p.new_operator([prev] if prev else None)
        op.add_segment(Segment(**seg))
        prev = op; ops.append(op)
    return p, ops

# priority, 1 pool 10 cpu, 300 GB, tps=1 -> new job gets 1 cpu/30GB -> suspension = floor(30/20)=1 tick
def run(tps, ram, ncpu=10):
    ex = Executor(1, ncpu, ram, tps, multi_operator_containers=True)
    s = Scheduler(ex, "priority", multi_operator_containers=True)
    arrivals = {0: [chain(4, dict(baseline_cpu_seconds=2, memory_gb=1), f"b{i}", Priority.BATCH_PIPELINE)[0] for i in range(10)],
                3*tps: [chain(1, dict(baseline_cpu_seconds=2, memory_gb=1), f"q{i}", Priority.QUERY)[0] for i in range(3)]}
    allp = [p for v in arrivals.values() for p in v]
    res = []
    nsus = 0
    for t in range(60*tps):
        new = arrivals.get(t, [])
        sus, asg = s.run_one_tick(res, new)
        nsus += len(sus)
        if sus: print("  t", t, "suspend", [(x.container_id) for x in sus], "ram", [ex.pools[0].get_container_by_id(x.container_id).assignment.ram for x in sus])
        res = ex.run_one_tick(sus, asg)
    from collections import Counter
    print("tps", tps, "ram", ram, "susp", nsus, "complete", sum(p.runtime_status().is_pipeline_successful() for p in allp), "/", len(allp))
    for p in allp:
        st = p.runtime_status()
        if not st.is_pipeline_successful():
            print("   ", p.pipeline_id, dict((k.value,v) for k,v in st.state_counts.items() if v))
    print("   pool avail", ex.pools[0].avail_cpu_pool, ex.pools[0].avail_ram_pool, "susping", len(ex.pools[0].suspending_containers), "susped", len(ex.pools[0].suspended_containers), "queues", len(s.qry_jobs), len(s.interactive_jobs), len(s.batch_ppln_jobs), "s.suspending", len(s.suspending))
try:
    run(1, 300)   # 1-tick suspension
    run(1, 500)   # 50GB -> 2 ticks
    run(1, 100)   # 10GB -> 0 ticks
except BaseException as e:
    traceback.print_exc()
