from fractions import Fraction as F
import random, math
r = random.Random(0)
def impl(secs, tps): return int(secs / (1.0/tps))
dis = 0; amb=0; n=200000; dis_notamb=0
for _ in range(n):
    tps = r.choice([1,2,3,5,7,10,20,100,1000,12345,100000])
    kind = r.random()
    if kind < 0.5: gb = r.choice([0,1,5,10,20,30,35,37.5,40,45,55,100]) 
    else: gb = round(r.uniform(0, 200), r.choice([0,1,2,3]))
    secs = gb / 20
    x = F(gb) / 20 * tps
    ex = math.floor(x)
    eps = F(1, 10**9) * max(1, x)
    isamb = math.floor(x - eps) != math.floor(x + eps)
    got = impl(secs, tps)
    if got != ex:
        dis += 1
        if not isamb: dis_notamb += 1
    amb += isamb
print("n", n, "disagree", dis, "ambiguous", amb, "disagree-not-ambiguous", dis_notamb)
