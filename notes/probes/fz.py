import logging, sys, random, traceback, collections
logging.disable(logging.CRITICAL)
from eudoxia.executor import Executor
from eudoxia.scheduler import Scheduler
from eudoxia.executor.assignment import Assignment, Suspend
from eudoxia.workload.pipeline import Segment, Pipeline
from eudoxia.workload import OperatorState as S
from eudoxia.utils import Priority

SCAL = ["const","log","sqrt","linear3","linear7","squared","exp"]
def rand_pipeline(r, pid, single_only=False):
    prio = r.choice(list(Priority))
    p = Pipeline(pid, prio)
    n = 1 if (prio == Priority.QUERY and r.random()<0.7) or single_only else r.randint(1, 6)
    ops = []
    for i in range(n):
        k = r.choice([0,0,1,1,1,2,3]) if ops else 0
        parents = r.sample(ops, min(k, len(ops)))
        op = p.new_operator(parents or None)
        nseg = r.choice([1,1,1,2,3])
        for _ in range(nseg):
            kind = r.random()
            if kind < 0.3:
                seg = Segment(baseline_cpu_seconds=r.choice([0,0.001,0.05,0.3,1,2.5,10]), cpu_scaling=r.choice(SCAL), memory_gb=r.choice([0,0.1,1,4,10,30,100]), storage_read_gb=r.choice([0,0,1,10,40]))
            else:
                seg = Segment(baseline_cpu_seconds=r.choice([0,0.001,0.05,0.3,1,2.5,10]), cpu_scaling=r.choice(SCAL), storage_read_gb=r.choice([0,0.01,1,5,20,55,120]))
            op.add_segment(seg)
        ops.append(op)
    return p

def run(seed):
    r = random.Random(seed)
    algo = r.choice(["naive","priority","priority-pool","overbook"])
    moc = r.random() < 0.5
    if algo == "priority-pool": moc = True
    npools = 2 if algo=="priority-pool" else r.randint(1,3)
    cpus = r.choice([1,2,3,4,8,16,64]); ram = r.choice([0.5,1,2.5,8,10,30,64,100,256,500])
    tps = r.choice([1,2,3,5,10,10,100])
    oc = algo=="overbook"
    ex = Executor(npools, cpus, ram, tps, multi_operator_containers=moc, allow_memory_overcommit=oc)
    s = Scheduler(ex, algo, multi_operator_containers=moc, allow_memory_overcommit=oc)
    T = r.choice([20, 60, 200])
    arrivals = collections.defaultdict(list)
    npl = r.randint(1, 12)
    for i in range(npl):
        arrivals[r.randint(0, T//2)].append(rand_pipeline(r, f"p{i}"))
    res = []
    cfg = (algo, moc, npools, cpus, ram, tps, T, npl)
    t = -1
    try:
        for t in range(T):
            sus, asg = s.run_one_tick(res, arrivals.get(t, []))
            res = ex.run_one_tick(sus, asg)
            for pl in ex.pools:
                cpu = sum(c.assignment.cpu for c in pl.active_containers+pl.suspending_containers)
                rm = sum(c.assignment.ram for c in pl.active_containers+pl.suspending_containers)
                assert pl.avail_cpu_pool + cpu == pl.max_cpu_pool, ("cpu cons", pl.avail_cpu_pool, cpu)
                assert abs(pl.avail_ram_pool + rm - pl.max_ram_pool) < 1e-6, ("ram cons", pl.avail_ram_pool, rm)
                assert pl.avail_cpu_pool >= 0
                if not oc: assert pl.avail_ram_pool >= -1e-9, pl.avail_ram_pool
                tot = sum(c.get_current_memory_usage() for c in pl.active_containers)
                assert abs(tot - pl.consumed_ram_gb) < 1e-6, ("consumed", tot, pl.consumed_ram_gb)
    except BaseException as e:
        tb = traceback.extract_tb(e.__traceback__)
        fr = [f for f in tb if 'eudoxia' in f.filename or 'fz.py' in f.filename][-1]
        return ("EXC", type(e).__name__, str(e)[:70], f"{fr.filename.split('/')[-1]}:{fr.lineno}", cfg, seed, t)
    return None

if __name__ == "__main__":
    lo, hi = int(sys.argv[1]), int(sys.argv[2])
    buckets = collections.defaultdict(list)
    for seed in range(lo, hi):
        x = run(seed)
        if x: buckets[x[1:4]].append(x)
    for k, v in buckets.items():
        print(len(v), k, v[0][4:], [x[5] for x in v[:5]])
    print("done", hi-lo)
