import logging; logging.disable(logging.CRITICAL)
import sys, json, hashlib
import eudoxia.simulator as sim
from eudoxia.simulator import run_simulator, get_param_defaults
log = []
OrigEx = sim.Executor
class RecEx(OrigEx):
    def run_one_tick(self, sus, asg):
        res = super().run_one_tick(sus, asg)
        log.append(([ (s.container_id, s.pool_id) for s in sus], [(a.pipeline_id, len(a.ops), a.cpu, a.ram, a.pool_id) for a in asg], [(r.container_id, r.error, r.pool_id, len(r.ops)) for r in res]))
        return res
sim.Executor = RecEx
def go(algo, **kw):
    p = get_param_defaults(); p.update(duration=120, ticks_per_second=10, scheduler_algo=algo, waiting_seconds_mean=1.0, num_pipelines=6, query_prob=0.3, interactive_prob=0.2, batch_prob=0.5, num_pools=2, **kw)
    log.clear()
    s = run_simulator(p)
    # canonicalise container ids
    m = {}
    def cid(c): return m.setdefault(c, len(m))
    canon = []
    for sus, asg, res in log:
        canon.append(([ (cid(c), pl) for c, pl in sus], asg, [(cid(c), e, pl, n) for c, e, pl, n in res]))
    h = hashlib.sha256(json.dumps(canon).encode()).hexdigest()[:16]
    return h, s.assignments, s.suspensions, s.failures, s.pipelines_all.completion_count
out = {}
for algo, kw in [("naive",{}),("priority",{}),("priority-pool",{}),("overbook",{"allow_memory_overcommit":True})]:
    a = go(algo, **kw); b = go(algo, **kw)
    out[algo] = (a, a == b)
print(json.dumps(out))
