"""Prototype: tape-driven custom decisions (random), transition log rule (C01/C02)."""
import logging; logging.disable(logging.CRITICAL)
import random, collections, sys, traceback
from eudoxia.executor import Executor
from eudoxia.executor.container import Container
from eudoxia.executor.assignment import Assignment, Suspend
from eudoxia.workload import OperatorState as S
from eudoxia.workload.runtime_status import PipelineRuntimeStatus
from eudoxia.utils import Priority
from fz import rand_pipeline

LEGAL = {('pending','assigned'),('assigned','running'),('assigned','suspending'),('assigned','failed'),('running','completed'),('running','failed'),('suspending','pending'),('failed','assigned')}
LOG=[]
orig = PipelineRuntimeStatus.transition
def logged(self, op, new):
    old = self.operator_states[op]
    parents_done = all(self.operator_states[p]==S.COMPLETED for p in op.parents)
    try:
        orig(self, op, new)
    except Exception as e:
        LOG.append((op, old.value, new.value, False, parents_done)); raise
    LOG.append((op, old.value, new.value, True, parents_done))
PipelineRuntimeStatus.transition = logged

def run(seed):
    r = random.Random(seed); LOG.clear()
    tps = r.choice([1,2,5,10]); npools=r.randint(1,2); cpus=r.choice([2,4,8]); ram=r.choice([10,50,200]); moc = r.random()<0.8
    Container.next_container_num=1
    ex = Executor(npools,cpus,ram,tps,multi_operator_containers=moc)
    pipes=[rand_pipeline(r, f"p{i}") for i in range(r.randint(1,4))]
    for p in pipes: p.runtime_status()
    badness = r.choice([0,0,0.05,0.3])
    outcome='ok'; t=-1
    kinds=collections.Counter()
    try:
        for t in range(r.choice([20,60])):
            sus=[]; asg=[]
            for pid,pl in enumerate(ex.pools):
                for c in pl.active_containers:
                    if (c.can_suspend_container() and r.random()<0.3) or r.random()<badness*0.1:
                        sus.append(Suspend(c.container_id,pid))
            for pid,pl in enumerate(ex.pools):
                fc,fr = pl.avail_cpu_pool, pl.avail_ram_pool
                for _ in range(r.choice([0,1,1,2])):
                    if fc<1 or fr<=0: break
                    p = r.choice(pipes); st=p.runtime_status().operator_states
                    if r.random() < badness:
                        cand=[o for o in st]     # anything
                    else:
                        cand=[o for o,s in st.items() if s in (S.PENDING,S.FAILED)]
                    if not cand: continue
                    k = r.randint(1, min(len(cand), 3 if moc else 1))
                    if r.random()<badness: ops = r.sample(cand,k)           # random order/subset
                    else:
                        # safe: topological subset with outside parents completed
                        ops=[]
                        for o in cand:
                            if len(ops)==k: break
                            if all(st[q]==S.COMPLETED or q in ops for q in o.parents): ops.append(o)
                        if not ops: continue
                    cpu=r.randint(1,max(1,min(fc,3))); rm=r.choice([fr, fr/2, min(fr,5)])
                    if r.random()<badness*0.2: cpu=fc+1
                    asg.append(Assignment(ops,cpu,rm,p.priority,pid if r.random()>badness*0.1 else 7,p.pipeline_id)); fc-=cpu; fr-=rm
            ex.run_one_tick(sus,asg)
            live=[o for pl in ex.pools for c in pl.active_containers+pl.suspending_containers for o in c.operators]
            assert len(live)==len(set(live)), "op in two live containers"
    except Exception as e:
        tb=traceback.extract_tb(e.__traceback__)
        fr_=[f for f in tb if 'eudoxia' in f.filename][-1] if any('eudoxia' in f.filename for f in tb) else tb[-1]
        outcome=(type(e).__name__, str(e)[:40], fr_.filename.split('/')[-1], fr_.lineno)
    # log rules
    probs=[]
    completed=set()
    for op,old,new,ok,pd in LOG:
        if ok and (old,new) not in LEGAL: probs.append(('illegal-accepted',old,new))
        if not ok and (old,new) in LEGAL and not (new=='running' and not pd): probs.append(('legal-refused',old,new))
        if ok and new=='running' and not pd: probs.append(('ran-before-parent',))
        if ok and op in completed: probs.append(('after-completed',old,new))
        if ok and new=='completed': completed.add(op)
    return outcome, probs, badness
if __name__=="__main__":
    oc=collections.Counter(); allp=[]
    for seed in range(int(sys.argv[1]),int(sys.argv[2])):
        o,p,b=run(seed); oc[(o if o=='ok' else o[:1]+o[2:], b>0)]+=1
        if p: allp.append((seed,p[:2]))
        if o!='ok' and b==0: allp.append((seed,'EXC-on-safe-tape',o))
    for k,v in sorted(oc.items(), key=lambda x:-x[1]): print(v,k)
    print(allp[:10])
