"""Prototype: C05 container trace predictor with boundary sets, vs real Container in a real pool."""
import logging; logging.disable(logging.CRITICAL)
import math, random, itertools, sys, collections
from fractions import Fraction as F
from eudoxia.executor.resource_pool import ResourcePool
from eudoxia.executor.assignment import Assignment
from eudoxia.workload.pipeline import Segment, Pipeline
from eudoxia.workload import OperatorState as S
from eudoxia.utils import Priority

LAWS = ["const","log","sqrt","linear3","linear7","squared","exp"]
def cpu_time(law, n, b):
    """returns (value as Fraction or float, exact?)"""
    b = F(b)
    if law == "const": return b, True
    if law == "linear3": return b / min(n, 3), True
    if law == "linear7": return b / min(n, 7), True
    if law == "squared": return b / (n*n), True
    if law == "exp": return b / (2 ** min(n, 4)), True
    if law == "sqrt": return float(b) / math.sqrt(n), False
    if law == "log": return float(b) / (math.log(n) + 1), False
def tickset(x, exact):
    x = F(x)
    eps = F(1, 10**9) * max(1, x)
    if not exact: eps *= 10
    lo = math.floor(x - eps); hi = math.floor(x + eps)
    return sorted({max(lo, 0), max(hi, 0)})

def predict(ops, cpus, ram, tps):
    """ops: list of list of seg dict(cpu, law, mem, read). yields predicted traces:
       list of per-tick (mem_lo, mem_hi, states tuple) and terminal ('ok'|'oom', tick)"""
    # choices per phase
    phases = []  # (op_idx, seg_idx, kind, options)
    for oi, segs in enumerate(ops):
        for si, sg in enumerate(segs):
            io = tickset(F(sg['read'])/20*tps, True)
            ct, ex = cpu_time(sg['law'], cpus, sg['cpu'])
            cp = tickset(F(ct)*tps, ex)
            phases.append((oi, si, io, cp))
    opts = [list(itertools.product(p[2], p[3])) for p in phases]
    ncomb = 1
    for o in opts: ncomb *= len(o)
    if ncomb > 64: return None
    out = []
    for combo in itertools.product(*opts):
        # build
        trace = []; states = ['assigned']*len(ops); term = None
        k = 0
        for oi, segs in enumerate(ops):
            states[oi] = 'running'
            segt = []
            for si, sg in enumerate(segs):
                segt.append(list(combo[k])); k += 1
            if sum(a+b for a,b in segt) == 0: segt[-1][1] = 1
            last = max(i for i,(a,b) in enumerate(segt) if a+b>0)
            for si, sg in enumerate(segs):
                io, cp = segt[si]
                for i in range(io+cp):
                    if i < io:
                        mem = F(sg['mem']) if sg['mem'] is not None else F(i+1)*20/tps
                    else:
                        mem = F(sg['mem']) if sg['mem'] is not None else F(sg['read'])
                    computed = (sg['mem'] is None and i < io)
                    if (mem > F(ram)*(1+F(1,10**9))) if computed else (mem > F(ram)):
                        st = list(states)
                        for j in range(oi, len(ops)): st[j] = 'failed'
                        trace.append((F(0), tuple(st))); term = 'oom'; break
                    if computed and mem > F(ram)*(1-F(1,10**9)) and mem != F(ram):
                        pass  # ambiguous compare: treat as not-oom here (prototype)
                    done = (si == last and i == io+cp-1)
                    if done:
                        states[oi] = 'completed'
                    lastop = done and oi == len(ops)-1
                    trace.append((F(0) if lastop else mem, tuple(states)))
                    if lastop: term = 'ok'
                if term: break
            if term: break
        out.append((trace, term))
    return out

def observe(ops, cpus, ram, tps):
    pool = ResourcePool(0, 1000, 10**9, tps)
    p = Pipeline("p", Priority.BATCH_PIPELINE); prev=None; real=[]
    for segs in ops:
        o = p.new_operator([prev] if prev else None)
        for sg in segs: o.add_segment(Segment(baseline_cpu_seconds=sg['cpu'], cpu_scaling=sg['law'], memory_gb=sg['mem'], storage_read_gb=sg['read']))
        prev=o; real.append(o)
    a = Assignment(real, cpus, ram, p.priority, 0, "p")
    trace=[]; res = pool.run_one_tick([], [a]); c = None
    t=0
    while True:
        cont = pool.active_containers[0] if pool.active_containers else None
        mem = cont.get_current_memory_usage() if cont else 0.0
        trace.append((mem, tuple(o.state().value for o in real)))
        if res: return trace, ('oom' if res[0].failed() else 'ok')
        t+=1
        if t > 20000: return trace, 'timeout'
        res = pool.run_one_tick([], [])

def match(pred, obs):
    (pt, pterm), (ot, oterm) = pred, obs
    if pterm != oterm or len(pt) != len(ot): return False
    for (pm, ps), (om, os_) in zip(pt, ot):
        if ps != os_: return False
        if abs(float(pm) - om) > 1e-9*max(1, abs(om)): return False
    return True

def gen(r):
    tps = r.choice([1,2,3,5,7,10,20,100,1000])
    nops = r.randint(1,4)
    ops=[]
    for _ in range(nops):
        segs=[]
        for _ in range(r.choice([1,1,2,3])):
            mode = r.random()
            read = r.choice([0,0,0.01,1,5,20,30,37.5,45,55]) if mode<0.7 else round(r.uniform(0,60), r.choice([0,1,2]))
            cpu = r.choice([0,0.001,0.05,0.3,1,2,5,15]) if mode<0.7 else round(r.uniform(0,20), r.choice([0,1,3]))
            mem = r.choice([None,None,None,0,0.5,4,30])
            segs.append(dict(cpu=cpu, law=r.choice(LAWS), mem=mem, read=read))
        ops.append(segs)
    cpus = r.choice([1,2,3,4,7,8,16,64])
    ram = r.choice([0.3,1,4,10,20,30,40,55,64,100])
    return ops, cpus, ram, tps

if __name__ == "__main__":
    lo, hi = int(sys.argv[1]), int(sys.argv[2])
    st = collections.Counter(); bad=[]
    for seed in range(lo, hi):
        r = random.Random(seed)
        ops, cpus, ram, tps = gen(r)
        # bound ticks
        preds = predict(ops, cpus, ram, tps)
        if preds is None: st['too_amb']+=1; continue
        if max(len(p[0]) for p in preds) > 20000: st['long']+=1; continue
        try:
            obs = observe(ops, cpus, ram, tps)
        except BaseException as e:
            st['EXC '+type(e).__name__]+=1; bad.append((seed, 'exc')); continue
        st['n']+=1; st['term_'+obs[1]]+=1
        if len(preds)>1: st['ambiguous']+=1
        if not any(match(p, obs) for p in preds):
            st['MISMATCH']+=1; bad.append((seed, [ (len(p[0]), p[1]) for p in preds], (len(obs[0]), obs[1])))
    print(dict(st)); print(bad[:5])
