import logging; logging.disable(logging.CRITICAL)
import json, threading, http.server, time
from eudoxia.simulator import run_simulator, get_param_defaults
reqs = []
class H(http.server.BaseHTTPRequestHandler):
    def log_message(self, *a): pass
    def do_POST(self):
        n = int(self.headers['Content-Length']); body = json.loads(self.rfile.read(n))
        reqs.append((self.path, body))
        if self.path == '/init':
            out = b'OK'
        else:
            asg = []
            assigned=set()
            allp = body['new_pipelines'] + body['other_pipelines']
            for pool in body['pools']:
                if pool['avail_cpu'] <= 0 or pool['avail_ram_gb'] <= 0: continue
                done=False
                for p in allp:
                    if p['is_complete'] or p['has_failures']: continue
                    for op in p['operators']:
                        if op['is_assignable_state'] and op['parents_complete'] and op['id'] not in assigned:
                            asg.append(dict(operator_ids=[op['id']], cpu=pool['avail_cpu'], ram_gb=pool['avail_ram_gb'], pool_id=pool['pool_id'], priority=p['priority'], is_resume=False, force_run=False))
                            assigned.add(op['id']); done=True; break
                    if done: break
            out = json.dumps(dict(suspensions=[], assignments=asg)).encode()
        self.send_response(200); self.send_header('Content-Type','application/json'); self.send_header('Content-Length', str(len(out))); self.end_headers(); self.wfile.write(out)
srv = http.server.HTTPServer(('127.0.0.1', 0), H)
port = srv.server_address[1]
th = threading.Thread(target=srv.serve_forever, daemon=True); th.start()
p = get_param_defaults(); p.update(duration=60, ticks_per_second=10, scheduler_algo='rest', rest_scheduler_addr=f'127.0.0.1:{port}', num_pools=2, waiting_seconds_mean=5)
t0=time.time()
s = run_simulator(p)
print("rest:", s.pipelines_created, s.containers_completed, s.assignments, "calls", len(reqs), "wall", round(time.time()-t0,2))
p2 = dict(p); p2.update(scheduler_algo='naive', multi_operator_containers=False)
s2 = run_simulator(p2)
print("naive single-op:", s2.pipelines_created, s2.containers_completed, s2.assignments)
print(s.to_dict() == s2.to_dict())
print(reqs[1][1].keys(), reqs[1][1]['tick'], reqs[1][1]['new_pipelines'][0]['arrival_tick'])
srv.shutdown()
