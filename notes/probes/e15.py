import logging; logging.disable(logging.CRITICAL)
import csv, io, random, os, sys, contextlib
from fractions import Fraction as F
from eudoxia.__main__ import main
H="pipeline_id,arrival_seconds,priority,operator_id,parents,baseline_cpu_seconds,cpu_scaling,memory_gb,storage_read_gb\n"
bad=[]; n=0
for seed in range(400):
    r=random.Random(seed)
    rows=[]; t=F(0)
    npl=r.randint(1,10)
    for i in range(npl):
        t += F(r.choice([0,0,1,3,7,25]), r.choice([1,10,100,1000]))
        arr = r.choice([str(float(t)), str(t.numerator//t.denominator) if t.denominator==1 else repr(float(t))])
        nops=r.randint(1,3)
        for j in range(nops):
            rows.append([f"p{i}", arr if j==0 else "", "QUERY" if j==0 else "", f"op{j+1}", f"op{j}" if j else "", r.choice(["1","1.0","0.5","15"]), r.choice(["const","sqrt"]), r.choice(["","0","2.5"]), r.choice(["55","37.5","0"])])
    inp="wk/in.csv"; out="wk/out.csv"; out2="wk/out2.csv"
    with open(inp,"w") as f: f.write(H+"".join(",".join(x)+"\n" for x in rows))
    delta = r.choice([0, 0.001, 0.1, 1.0, 5.0]); sd = r.choice([None,0,1,42,99])
    args=['tools','jitter',inp,out,str(delta),'-f'] + (['-s',str(sd)] if sd is not None else [])
    with contextlib.redirect_stdout(io.StringIO()):
        main(args); main(args[:3]+[out2]+args[4:])
    a=open(out).read(); b=open(out2).read()
    if a!=b: bad.append((seed,'nondeterministic'))
    rin=list(csv.DictReader(open(inp))); rout=list(csv.DictReader(open(out)))
    n+=1
    if len(rin)!=len(rout): bad.append((seed,'rowcount')); continue
    # group
    def groups(rs):
        g=[]; 
        for x in rs:
            if g and g[-1][0]['pipeline_id']==x['pipeline_id']: g[-1].append(x)
            else: g.append([x])
        return g
    gi={g[0]['pipeline_id']:g for g in groups(rin)}; go=groups(rout)
    if sorted(gi)!=sorted(g[0]['pipeline_id'] for g in go): bad.append((seed,'pipelines')); continue
    prev=None
    for g in go:
        src=gi[g[0]['pipeline_id']]
        for x,y in zip(src,g):
            for k in x:
                if k=='arrival_seconds': continue
                if x[k]!=y[k]: bad.append((seed,'col',k,x[k],y[k]))
        d = F(g[0]['arrival_seconds'])-F(src[0]['arrival_seconds'])
        if d < 0 or d > F(str(delta)) + F(1,10**12): bad.append((seed,'bound',float(d),delta))
        if any(y['arrival_seconds'] for y in g[1:]): bad.append((seed,'later-arrival'))
        cur=F(g[0]['arrival_seconds'])
        if prev is not None and cur<prev: bad.append((seed,'order'))
        prev=cur
print(n, bad[:10])
