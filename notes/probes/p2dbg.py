import p2, sys
import eudoxia.executor.container as C
seed=int(sys.argv[1])
orig_kill = C.Container.kill
def kill(self, error="OOM"):
    print("KILL", self.container_id, "usage", self.get_current_memory_usage(), "alloc", self.assignment.ram, "pool consumed", self.pool.consumed_ram_gb, "cap", self.pool.max_ram_pool, "segs", [(s.baseline_cpu_seconds, s.memory_gb, s.storage_read_gb) for o in self.operators for s in o.get_segments()], "tps", self.ticks_per_second)
    return orig_kill(self, error)
C.Container.kill = kill
b, st = p2.run(seed)
print(b)
