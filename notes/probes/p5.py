"""Prototype observed_run + C06 recount."""
import logging; logging.disable(logging.CRITICAL)
import math, random, collections, sys, traceback
import numpy as np
import eudoxia.simulator as sim
from eudoxia.simulator import run_simulator, get_param_defaults
from eudoxia.workload import WorkloadGenerator
from eudoxia.workload.workload import Workload
from eudoxia.workload import OperatorState as S
from eudoxia.utils import Priority
from eudoxia.executor.container import Container

class Obs:
    def __init__(s): s.ticks=[]; s.arrivals=[]; s.known=[]; s.executor=None
def observed_run(params, workload=None):
    obs = Obs()
    OE, OS = sim.Executor, sim.Scheduler
    class RE(OE):
        def __init__(self, *a, **k): super().__init__(*a, **k); obs.executor=self
        def run_one_tick(self, sus, asg):
            res = super().run_one_tick(sus, asg)
            done = [p.pipeline_id for p in obs.known if all(v==S.COMPLETED for v in p.runtime_status().operator_states.values())]
            obs.ticks.append(dict(sus=len(sus), asg=len(asg), res=[(r.container_id, r.error) for r in res], done=done))
            return res
    class RS(OS):
        def run_one_tick(self, results, pipelines):
            return super().run_one_tick(results, pipelines)
    class RW(Workload):
        def __init__(self, inner): self.inner=inner; self.t=0
        def run_one_tick(self):
            ps = self.inner.run_one_tick()
            for p in ps: obs.arrivals.append((self.t, p)); obs.known.append(p)
            self.t+=1; return ps
    p = sim.parse_args_with_defaults(dict(params))
    inner = workload if workload is not None else WorkloadGenerator(**p)
    sim.Executor, sim.Scheduler = RE, RS
    try:
        Container.next_container_num = 1
        stats = run_simulator(params, workload=RW(inner))
    finally:
        sim.Executor, sim.Scheduler = OE, OS
    return stats, obs

def recount(params, obs):
    p = sim.parse_args_with_defaults(dict(params)); tps=p['ticks_per_second']
    arr = {pr:0 for pr in Priority}; lat={pr:[] for pr in Priority}
    arrtick={}; prio={}
    for t,pl in obs.arrivals: arr[pl.priority]+=1; arrtick[pl.pipeline_id]=t; prio[pl.pipeline_id]=pl.priority
    seen=set()
    for t,rec in enumerate(obs.ticks):
        for pid in rec['done']:
            if pid not in seen: seen.add(pid); lat[prio[pid]].append(t-arrtick[pid])
    def ps(a, l):
        if not l: return (a, 0, float('nan'), float('nan'))
        s = sorted(l); n=len(s); rk=0.99*(n-1); lo=math.floor(rk); hi=min(lo+1,n-1); p99=s[lo]+(s[hi]-s[lo])*(rk-lo)
        return (a, n, sum(l)/n/tps, p99/tps)
    succ = sum(1 for r in obs.ticks for c,e in r['res'] if e is None)
    fail = collections.Counter(e for r in obs.ticks for c,e in r['res'] if e is not None)
    allat = lat[Priority.QUERY]+lat[Priority.INTERACTIVE]+lat[Priority.BATCH_PIPELINE]
    return dict(created=len(obs.arrivals), succ=succ, thr=succ/p['duration'], asg=sum(r['asg'] for r in obs.ticks), sus=sum(r['sus'] for r in obs.ticks), fails=sum(fail.values()), fec=dict(fail),
                all=ps(sum(arr.values()), allat), q=ps(arr[Priority.QUERY], lat[Priority.QUERY]), i=ps(arr[Priority.INTERACTIVE], lat[Priority.INTERACTIVE]), b=ps(arr[Priority.BATCH_PIPELINE], lat[Priority.BATCH_PIPELINE]))
def close(a,b): return (isinstance(a,float) and isinstance(b,float) and math.isnan(a) and math.isnan(b)) or a==b or (isinstance(a,(int,float)) and isinstance(b,(int,float)) and math.isclose(a,b,rel_tol=1e-9))
bad=0; n=0
for seed in range(int(sys.argv[1]), int(sys.argv[2])):
    r = random.Random(seed)
    algo = r.choice(["naive","priority","priority-pool","overbook"])
    params = dict(scheduler_algo=algo, duration=r.choice([0.01, 3, 20, 60]), ticks_per_second=r.choice([1,2,10,100]), waiting_seconds_mean=r.choice([0.5,2,10]), num_pipelines=r.choice([1,3,6]), num_operators=r.choice([1,3,6]),
                  query_prob=0.2, interactive_prob=0.3, batch_prob=0.5, num_pools=2 if algo=="priority-pool" else r.randint(1,3), cpus_per_pool=r.choice([2,8,64]), ram_gb_per_pool=r.choice([30,64,256]), multi_operator_containers=True if algo=="priority-pool" else r.random()<0.5, allow_memory_overcommit=(algo=="overbook"), random_seed=seed)
    try:
        st, obs = observed_run(params)
    except BaseException as e:
        tb=traceback.extract_tb(e.__traceback__)[-1]; print(seed, "EXC", type(e).__name__, str(e)[:60], tb.lineno); bad+=1; continue
    rc = recount(params, obs); n+=1
    pairs = [(st.pipelines_created, rc['created']), (st.containers_completed, rc['succ']), (st.throughput, rc['thr']), (st.assignments, rc['asg']), (st.suspensions, rc['sus']), (st.failures, rc['fails']), (st.failure_error_counts, rc['fec'])]
    for nm, ps_ in (('all',st.pipelines_all),('q',st.pipelines_query),('i',st.pipelines_interactive),('b',st.pipelines_batch)):
        pairs += list(zip(tuple(ps_), rc[nm]))
    if not all(close(a,b) for a,b in pairs):
        bad+=1; print(seed, params, [(a,b) for a,b in pairs if not close(a,b)][:4])
print("runs", n, "bad", bad)
