import math
from fractions import Fraction
def snap(original, ticks_per_second):
    ticks = original * ticks_per_second
    nearest = round(ticks)
    if math.isclose(ticks, nearest, rel_tol=1e-12, abs_tol=1e-9):
        return nearest / ticks_per_second
    return math.floor(ticks) / ticks_per_second
import random
r = random.Random(1)
for tps in [1,3,7,10,20,100,1000,12345,100000]:
    bad=0
    for k in range(20000):
        x = float(repr(k/tps)); s = snap(x,tps)
        if s != x or snap(s,tps)!=s: bad+=1
    for _ in range(20000):
        x = round(r.uniform(0, 500), r.choice([1,2,3,4,6,9])); s = snap(x,tps)
        if snap(s,tps)!=s: bad+=1
        d = Fraction(x)-Fraction(s)
        if d < -Fraction(1,10**9) or d >= Fraction(1,tps)+Fraction(1,10**9): bad+=1
    print(tps, bad)
