"""Prototype C19: payload oracle in handler + differential replay."""
import logging; logging.disable(logging.CRITICAL)
import json, threading, http.server, random, sys, math, collections, traceback
import eudoxia.simulator as sim
from eudoxia.simulator import run_simulator
from eudoxia.workload import WorkloadGenerator
from eudoxia.workload.workload import Workload
from eudoxia.workload import OperatorState as S
from eudoxia.executor.container import Container
from eudoxia.executor.assignment import Assignment, Suspend
from eudoxia.scheduler.decorators import register_scheduler, register_scheduler_init, INIT_ALGOS, SCHEDULING_ALGOS
from eudoxia.utils import Priority

class Ctx: pass
def go_naive(body, rnd):
    asg=[]; assigned=set(); allp = body['new_pipelines']+body['other_pipelines']
    for pool in body['pools']:
        if pool['avail_cpu']<=0 or pool['avail_ram_gb']<=0: continue
        done=False
        for p in allp:
            if p['is_complete'] or p['has_failures']: continue
            for op in p['operators']:
                if op['is_assignable_state'] and op['parents_complete'] and op['id'] not in assigned:
                    asg.append(dict(operator_ids=[op['id']], cpu=pool['avail_cpu'], ram_gb=pool['avail_ram_gb'], pool_id=pool['pool_id'], priority=p['priority'], is_resume=False, force_run=False)); assigned.add(op['id']); done=True; break
            if done: break
    return dict(suspensions=[], assignments=asg)

def expected_payload(ctx):
    ex = ctx.executor
    def opd(op):
        st = op.pipeline.runtime_status().operator_states
        return dict(id=str(op.id), state=st[op].value, is_assignable_state=st[op] in (S.PENDING,S.FAILED), parents_complete=all(st[q]==S.COMPLETED for q in op.parents))
    def pd(p):
        st = p.runtime_status().operator_states
        return dict(pipeline_id=p.pipeline_id, priority=p.priority.name, arrival_tick=ctx.arrtick[p.pipeline_id], is_complete=all(v==S.COMPLETED for v in st.values()), has_failures=any(v==S.FAILED for v in st.values()), operators=[opd(o) for o in st])
    def cd(c): return dict(container_id=c.container_id, pipeline_id=c.operators[0].pipeline.pipeline_id, operator_ids=[str(o.id) for o in c.operators], cpu=c.assignment.cpu, ram_gb=c.assignment.ram, current_memory_gb=c.get_current_memory_usage(), priority=c.assignment.priority.name)
    pools=[dict(pool_id=i, max_cpu=pl.max_cpu_pool, max_ram_gb=pl.max_ram_pool, avail_cpu=pl.avail_cpu_pool, avail_ram_gb=pl.avail_ram_pool, consumed_ram_gb=sum(c.get_current_memory_usage() for c in pl.active_containers),
                active_containers=[cd(c) for c in pl.active_containers], suspending_containers=[cd(c) for c in pl.suspending_containers], suspended_containers=[cd(c) for c in pl.suspended_containers]) for i,pl in enumerate(ex.pools)]
    res=[dict(ops=[str(o.id) for o in r.ops], cpu=r.cpu, ram=r.ram, priority=r.priority.name, pool_id=r.pool_id, container_id=r.container_id, error=r.error) for r in ctx.last_results]
    return dict(results=res, new_pipelines=[pd(p) for p in ctx.new_now], pools=pools)

def approx_eq(a,b):
    if isinstance(a,float) or isinstance(b,float): return (a is not None and b is not None) and math.isclose(a,b,rel_tol=1e-9,abs_tol=1e-9)
    if isinstance(a,dict): return isinstance(b,dict) and a.keys()==b.keys() and all(approx_eq(a[k],b[k]) for k in a)
    if isinstance(a,list): return isinstance(b,list) and len(a)==len(b) and all(approx_eq(x,y) for x,y in zip(a,b))
    return a==b

def run_case(seed):
    r = random.Random(seed)
    ctx = Ctx(); ctx.problems=[]; ctx.calls=[]; ctx.arrtick={}; ctx.new_now=[]; ctx.last_results=[]; ctx.tick=-1; ctx.decisions={}; ctx.complete_reported=collections.Counter(); ctx.known=set(); ctx.opindex={}
    class H(http.server.BaseHTTPRequestHandler):
        def log_message(self,*a): pass
        def do_POST(self):
            body = json.loads(self.rfile.read(int(self.headers['Content-Length'])))
            if self.path=='/init': out=b'OK'
            else:
                try:
                    exp = expected_payload(ctx)
                    for k in ('results','new_pipelines','pools'):
                        if not approx_eq(body[k], exp[k]): ctx.problems.append(('payload', k, ctx.tick))
                    newids={p['pipeline_id'] for p in body['new_pipelines']}; oth={p['pipeline_id'] for p in body['other_pipelines']}
                    if newids & oth: ctx.problems.append(('not-disjoint', ctx.tick))
                    if oth - ctx.known: ctx.problems.append(('other-unknown', ctx.tick))
                    for p in body['other_pipelines']:
                        if p['is_complete']: ctx.complete_reported[p['pipeline_id']]+=1
                        if ctx.complete_reported[p['pipeline_id']]>1: ctx.problems.append(('complete-twice', p['pipeline_id']))
                    ctx.known |= newids
                    if 'baseline_cpu_seconds' in json.dumps(body) or 'storage_read_gb' in json.dumps(body): ctx.problems.append(('leak',))
                    ctx.calls.append((ctx.tick, bool(ctx.new_now or ctx.last_results), body['sim_time_seconds']))
                    resp = go_naive(body, r)
                    ctx.decisions[ctx.tick] = [ (tuple(ctx.opindex[i] for i in a['operator_ids']), a['cpu'], a['ram_gb'], a['pool_id'], a['priority']) for a in resp['assignments']]
                except Exception as e:
                    ctx.problems.append(('handler-exc', repr(e), traceback.format_exc()[-300:])); resp=dict(suspensions=[],assignments=[])
                out=json.dumps(resp).encode()
            self.send_response(200); self.send_header('Content-Length',str(len(out))); self.end_headers(); self.wfile.write(out)
    srv = http.server.HTTPServer(('127.0.0.1',0),H); th=threading.Thread(target=srv.serve_forever,daemon=True); th.start()
    params = dict(duration=r.choice([5,20,40]), ticks_per_second=r.choice([1,5,10,50]), waiting_seconds_mean=r.choice([0.5,2,6]), num_pipelines=r.choice([1,2,4]), num_operators=r.choice([1,3]), query_prob=0.2, interactive_prob=0.3, batch_prob=0.5,
                  num_pools=r.randint(1,3), cpus_per_pool=r.choice([2,8]), ram_gb_per_pool=r.choice([64,256]), random_seed=seed, rest_poll_interval=r.choice([0, 0.05, 0.5, 2.0]), multi_operator_containers=False)
    OE=sim.Executor
    class RE(OE):
        def __init__(self,*a,**k): super().__init__(*a,**k); ctx.executor=self
        def run_one_tick(self,sus,asg):
            res=super().run_one_tick(sus,asg); ctx.last_results=res; ctx.all_results.append([(x.container_id,x.error) for x in res]); return res
    class RW(Workload):
        def __init__(self,inner): self.inner=inner
        def run_one_tick(self):
            ctx.tick+=1; ps=self.inner.run_one_tick(); ctx.new_now=ps
            for p in ps:
                ctx.arrtick[p.pipeline_id]=ctx.tick
                for i,o in enumerate(p.runtime_status().operator_states): ctx.opindex[str(o.id)]=(p.pipeline_id,i)
            ctx.active_ticks.append(bool(ps) or bool(ctx.last_results)); return ps
    def go(algo, extra):
        ctx.tick=-1; ctx.last_results=[]; ctx.all_results=[]; ctx.active_ticks=[]
        pp=dict(params); pp.update(extra); pp['scheduler_algo']=algo
        full=sim.parse_args_with_defaults(pp)
        sim.Executor=RE; Container.next_container_num=1
        try: return run_simulator(pp, workload=RW(WorkloadGenerator(**full)))
        finally: sim.Executor=OE
    try:
        sA = go('rest', dict(rest_scheduler_addr=f"127.0.0.1:{srv.server_address[1]}"))
        resA = ctx.all_results; activeA=ctx.active_ticks
    finally:
        srv.shutdown(); srv.server_close()
    # call discipline
    called = {t for t,_,_ in ctx.calls}
    for t,act in enumerate(activeA):
        if act and t not in called: ctx.problems.append(('missing-call', t))
    tps=params['ticks_per_second']; last=None
    for t,act,simt in ctx.calls:
        if not act and last is not None and (t-last)/tps < params['rest_poll_interval']-1e-9: ctx.problems.append(('idle-call-too-soon', t, last))
        last=t
    # differential replay
    key=f"replay{seed}"
    for d in (INIT_ALGOS, SCHEDULING_ALGOS): d.pop(key, None)
    dec=ctx.decisions
    @register_scheduler_init(key=key)
    def init(s): s.t=-1; s.pl={}
    @register_scheduler(key=key)
    def algo(s, results, pipelines):
        s.t+=1
        for p in pipelines: s.pl[p.pipeline_id]=p
        out=[]
        for ops,cpu,ram,pool,prio in dec.get(s.t, []):
            real=[list(s.pl[pid].runtime_status().operator_states)[i] for pid,i in ops]
            out.append(Assignment(real,cpu,ram,Priority[prio],pool,ops[0][0]))
        return [], out
    sB = go(key, {})
    def same(a,b): return all((isinstance(x,float) and isinstance(y,float) and math.isnan(x) and math.isnan(y)) or x==y for x,y in zip(a,b))
    da, db = sA.to_dict(), sB.to_dict()
    flat=lambda d:[v for k in sorted(d) for v in (flat(d[k]) if isinstance(d[k],dict) else [d[k]])]
    if not same(flat(da),flat(db)): ctx.problems.append(('stats-differ',))
    if resA != ctx.all_results: ctx.problems.append(('results-differ',))
    completed = sA.pipelines_all.completion_count
    return ctx.problems, dict(calls=len(ctx.calls), idle=sum(1 for c in ctx.calls if not c[1]), completes=sum(ctx.complete_reported.values()), completed=completed)
if __name__=="__main__":
    tot=collections.Counter(); nb=0
    for seed in range(int(sys.argv[1]), int(sys.argv[2])):
        pr, st = run_case(seed); tot.update(st)
        if pr: nb+=1; print(seed, pr[:3])
    print(dict(tot), "bad", nb)
