import logging, warnings
logging.disable(logging.CRITICAL)
import numpy as np
from eudoxia.simulator import run_simulator, get_param_defaults
import traceback

def tryrun(**kw):
    p = get_param_defaults(); p.update(kw)
    try:
        s = run_simulator(p)
        return "ok", s.pipelines_created, s.containers_completed, s.assignments, s.failures, s.suspensions
    except BaseException as e:
        tb = traceback.extract_tb(e.__traceback__)[-1]
        return "EXC", type(e).__name__, str(e)[:80], f"{tb.filename.split('/')[-1]}:{tb.lineno}"

print("np.percentile([])", end=" ")
try:
    with warnings.catch_warnings():
        warnings.simplefilter("ignore")
        print(np.percentile([], 99))
except Exception as e: print("EXC", type(e).__name__, e)

print("dur<tick", tryrun(duration=0.0001, ticks_per_second=1000))
print("dur 1 tick nothing finishes", tryrun(duration=0.001, ticks_per_second=1000))
print("probs .7 .2 .1", tryrun(duration=5, ticks_per_second=10, interactive_prob=0.7, query_prob=0.2, batch_prob=0.1))
for algo, extra in [("naive",{}),("priority",{}),("priority-pool",{"num_pools":2}),("overbook",{"allow_memory_overcommit":True})]:
    for tps in [1,2,5,10,100]:
        for moc in [True, False]:
            print(algo, tps, moc, tryrun(duration=120, ticks_per_second=tps, scheduler_algo=algo, multi_operator_containers=moc, waiting_seconds_mean=3, **extra))
