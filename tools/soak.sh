#!/bin/bash
# usage: tools/soak.sh "<seeds>" [tier] [ids...]  -- runs every check on the unchanged tree at several VERIF_SEED values
# (fresh processes); prints one line per run. Evidence/replays go to a scratch dir, not to evidence/.
cd "$(dirname "${BASH_SOURCE[0]}")/.."
./setup.sh > /dev/null 2>&1      # a snapshot has no .deps: make atheris importable for the fuzz parts
seeds="${1:-2 3 4 5 6}"; tier="${2:-quick}"; shift 2 2>/dev/null
ids="$@"; [ -z "$ids" ] && ids="C01 C02 C03 C04 C05 C06 C07 C08 C09 C10 C11 C12 C13 C14 C15 C16 C17 C18 C19 C20"
out=$(mktemp -d .work/soak-XXXXXX 2>/dev/null || { mkdir -p .work; mktemp -d .work/soak-XXXXXX; })
out=$(realpath "$out")
for s in $seeds; do
  for id in $ids; do
    st=$(date +%s)
    VERIF_SEED=$s VERIF_OUT="$out" ./check $id --tier $tier > "$out/$id-$s.log" 2>&1
    rc=$?
    echo "SOAK seed=$s $id exit=$rc $(( $(date +%s) - st ))s $(grep -m1 -E 'violated clause|HARNESS' "$out/$id-$s.log" | cut -c1-300)"
    if [ $rc != 0 ]; then mkdir -p .work/soak-fail; cp "$out/$id-$s.log" .work/soak-fail/; cp "$out"/replay/$id/found-*.json .work/soak-fail/ 2>/dev/null; fi
  done
done
