#!/bin/bash
# usage: tools/verify_seed.sh <ID> <k> [check ids...]    -- confirms a sub-agent's seeded change and files it under seeded/
# 1. demo passes on a clean scratch worktree, 2. patch applies, 3. repo test-suite still passes, 4. demo fails with the patch.
set -u
id="$1"; k="$2"; shift 2
src=${SEED_ROOT:-/tmp/seed}/$id-out; tag="${SEED_TAG:-}"
here="$(cd "$(dirname "${BASH_SOURCE[0]}")/.." && pwd)"
d=$(mktemp -d /var/tmp/seedv-XXXXXX); rmdir "$d"
git -C /repo worktree add -q --detach "$d" HEAD || exit 2
trap 'git -C /repo worktree remove --force "$d" >/dev/null 2>&1; rm -rf "$d"' EXIT
cd "$d"
PYTHONPATH="$d" timeout 600 /venv/bin/python "$src/demo$k.py" > $src/clean$k.log 2>&1; rc_clean=$?
git apply "$src/patch$k.diff" || { echo "SEED $id-$k APPLY-FAILED"; exit 1; }
tests=$(PYTHONPATH="$d" /venv/bin/python -m pytest -q -p no:cacheprovider --timeout=900 2>&1 | tail -1)
PYTHONPATH="$d" timeout 600 /venv/bin/python "$src/demo$k.py" > $src/patched$k.log 2>&1; rc_patched=$?
echo "SEED $id-$k demo_clean=$rc_clean demo_patched=$rc_patched tests: $tests"
ok=0
if [ "$rc_clean" = 0 ] && [ "$rc_patched" != 0 ] && echo "$tests" | grep -q "51 passed" && ! echo "$tests" | grep -q failed; then ok=1; fi
if [ $ok = 1 ]; then
  dst="$here/seeded/$id-$tag$k"; mkdir -p "$dst"
  cp "$src/patch$k.diff" "$dst/patch.diff"; cp "$src/demo$k.py" "$dst/demo.py"
  /venv/bin/python - "$src/meta$k.json" "$dst/meta.json" "$id" "$tests" "$rc_clean" "$rc_patched" <<'PY'
import json, sys
src, dst, pid, tests, rc_clean, rc_patched = sys.argv[1:7]
try:
    m = json.load(open(src))
except Exception:
    m = {}
m["property"] = pid
m["confirmed"] = {"scratch_worktree": "git worktree of /repo HEAD under /var/tmp (removed afterwards)",
                  "repo_test_suite_with_change": tests.strip(),
                  "demo_exit_without_change": int(rc_clean), "demo_exit_with_change": int(rc_patched),
                  "commands": ["PYTHONPATH=<tree> /venv/bin/python demo.py (clean tree)", "git apply patch.diff",
                               "PYTHONPATH=<tree> /venv/bin/python -m pytest -q -p no:cacheprovider --timeout=900",
                               "PYTHONPATH=<tree> /venv/bin/python demo.py (patched tree)"]}
json.dump(m, open(dst, "w"), indent=1)
PY
  echo "SEED $id-$k KEPT -> seeded/$id-$tag$k"
else
  echo "SEED $id-$k NOT-CONFIRMED"
fi
