#!/bin/bash
# usage: tools/pin_found.sh <dir with <ID>-<tag>-found-<hash>.json files saved by mutants/run_mutant.sh (SAVE_FOUND)>
# Pins each shrunk failing case found on a seeded change / mutant as replay/<ID>/seeded-<hash>.json, but only after it
# has been replayed on the CURRENT /repo tree and passed there (exit 0).  A case that fails on the current tree is NOT pinned
# and is reported: it is either a flaky oracle or a real finding and has to be looked at.
set -u
here="$(cd "$(dirname "${BASH_SOURCE[0]}")/.." && pwd)"; cd "$here"
src="$1"
for f in "$src"/*-found-*.json; do
  b=$(basename "$f"); id=${b%%-*}; h=${b##*found-}; h=${h%.json}
  dst="replay/$id/seeded-$h.json"
  [ -f "$dst" ] && continue
  mkdir -p "replay/$id"
  out=$(./check "$id" --replay "$f" 2>&1); rc=$?
  if [ $rc = 0 ]; then cp "$f" "$dst"; echo "PINNED $dst"; else echo "NOT-PINNED rc=$rc $f: $(echo "$out" | grep -m1 -E 'VIOLATION|violated|HARNESS' | cut -c1-200)"; fi
done
