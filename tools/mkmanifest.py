#!/usr/bin/env python3
"""Regenerates MANIFEST.json from the table below (one entry per claimed property)."""
import json
import os

HERE = os.path.dirname(os.path.dirname(os.path.abspath(__file__)))

FIX_COMMITS = []  # filled from known_findings.txt (informational)

CHECKS = {
    "C05": dict(
        technique="property-based differential testing (Hypothesis): real container vs exact-rational trace predictor",
        text="Generated single-container cases (1-6 operators x 1-3 segments, seven laws, fixed/growing memory, tick rates "
             "1..100000, allocations around every demand step) run in a real ResourcePool; every tick's memory, operator "
             "states and result must be explained by an independent exact-rational model with boundary sets. Exploration: "
             "thousands (quick) to hundreds of thousands (thorough) of cases, no exhaustiveness claim.",
        note="Trusts the transcription of the four undocumented scaling laws; accepts either side within 1e-9 relative of a "
             "tick/limit boundary as the property itself allows.",
        ref="6 C05"),
}

PENDING_REASON = "check not built yet in this revision of the framework (planned, see DESIGN.md section 6)"


def main():
    props = [json.loads(l) for l in open(os.path.join(HERE, "properties.jsonl"))]
    checks = []
    na = []
    for p in props:
        pid = p["id"]
        c = CHECKS.get(pid)
        if not c:
            na.append({"property_id": pid, "reason": PENDING_REASON})
            continue
        checks.append({
            "property_id": pid,
            "quick_cmd": f"./check {pid} --tier quick",
            "thorough_cmd": f"./check {pid} --tier thorough",
            "evidence_file": f"/verif/evidence/{pid}.json",
            "replay_cmd_template": f"./check {pid} --replay {{path}}",
            "engine": "pbt",
            "technique": c["technique"],
            "level_claimed": {"category": "exploration", "text": c["text"], "design_ref": "DESIGN.md section " + c["ref"]},
            "level_note": c["note"],
        })
    man = {
        "version": 1,
        "setup_cmd": "./setup.sh",
        "hooks": {
            "guard": "EUDOXIA_VERIF",
            "enable": "no in-repo hooks: the checks observe the package through its public seams (subclasses and wrappers "
                      "installed by the harness at run time); EUDOXIA_VERIF=1 is exported by ./check but nothing in /repo reads it",
            "baseline_off_cmd": "cd /repo && /venv/bin/python -m pytest -ra -q -p no:cacheprovider --timeout=900",
            "source_commits": [],
            "add_only": True,
        },
        "engines": [{
            "name": "pbt", "path": "/verif/verif",
            "serves_properties": [c["property_id"] for c in checks],
            "kind_free_text": "Hypothesis strategies producing JSON case specs, executed against the working tree of /repo with "
                              "independent oracles (exact-rational tick model, pool ledger model, round monitors); sharded over 16 "
                              "processes; exhaustive enumeration for small finite domains; atheris for the CSV parsers",
        }],
        "checks": checks,
        "not_applicable": na,
        "notes": "Every check: exit 0 = held on everything explored, 1 = VIOLATION line with a JSON replay file, 2 = harness error. "
                 "VERIF_SEED selects the Hypothesis seeds (shard i uses seed*1009+i). known_findings.txt lists recorded findings "
                 "and fixed defects.",
    }
    with open(os.path.join(HERE, "MANIFEST.json"), "w") as f:
        json.dump(man, f, indent=1)
        f.write("\n")
    print("claimed", len(checks), "not_applicable", len(na))


if __name__ == "__main__":
    main()
