#!/usr/bin/env python3
"""Regenerates MANIFEST.json from the table below (one entry per claimed property)."""
import json
import os

HERE = os.path.dirname(os.path.dirname(os.path.abspath(__file__)))

FIX_COMMITS = []  # filled from known_findings.txt (informational)

POOL_NOTE = ("Trusts the independent ModelPool/tick model (written from the README and the property statements); phases are built "
             "(k+1/2) ticks long so the model is deterministic; quantities within 1e-6 GB / 1e-9 relative of a limit may fall on either side; "
             "an episode ends at its first rejected round.")
SIM_NOTE = ("Observes run_simulator through recording subclasses of Executor/Scheduler, a workload wrapper and a logging wrapper around "
            "PipelineRuntimeStatus.transition installed by the harness at run time (no change to /repo); the oracle uses only what was "
            "recorded at those seams.")

CHECKS = {
    "C01": dict(
        technique="exhaustive enumeration of all DAGs on <= 6 nodes + property-based testing (Hypothesis) of simulations with a log/snapshot monitor",
        text="DAG iteration decided exhaustively for every DAG on 1..6 nodes (two construction styles; repeated, nested, lock-step and "
             "during-construction iteration) and by Hypothesis up to 40 nodes; the start-after-parents clause by thousands of generated simulations under all shipped schedulers and a tape-driven custom "
             "scheduler issuing inadmissible decisions, judged on the ordered log of state changes and on snapshots at both phase boundaries.",
        note=SIM_NOTE, ref="6 C01"),
    "C02": dict(
        technique="exhaustive enumeration of request sequences (depth 4/5, DAGs <= 3 operators) + property-based request tapes and simulations (Hypothesis)",
        text="All request sequences of length <= 4 (quick) / 5 (thorough) on all 11 DAGs of <= 3 operators and every request from every reachable "
             "state vector, against an independent transition table; longer generated request tapes on DAGs <= 8; simulation histories under every "
             "scheduler checked for table conformance, finality of completion and disjoint live containers.",
        note=SIM_NOTE, ref="6 C02"),
    "C03": dict(
        technique="model-based property testing (Hypothesis command tapes): real Executor vs independent ledger model in lock-step",
        text="Generated command histories (batches at/below/above free resources, legal and illegal suspensions, bad commands) against 1-4 real pools; "
             "conservation checked from the implementation's own figures after every tick and free figures compared with the model "
             "(pools from 0.5 GB to 4e9 GB, tolerance 1e-12 relative); the conservation monitor also runs over generated full simulations.",
        note=POOL_NOTE, ref="6 C03"),
    "C04": dict(
        technique="model-based property testing (Hypothesis command tapes): per-tick memory vs independent demand model",
        text="Same machine with fixed/growing memory mixes and allocations around every demand step; usage <= allocation, pool usage <= capacity, "
             "reported usage == sum of running containers' usage, every kill justified by the model's demand.",
        note=POOL_NOTE, ref="6 C04"),
    "C05": dict(
        technique="property-based differential testing (Hypothesis): real container vs exact-rational trace predictor",
        text="Generated single-container cases (1-6 operators x 1-3 segments, seven laws, fixed/growing memory, tick rates "
             "1..100000, allocations around every demand step) run in a real ResourcePool; every tick's memory, operator "
             "states and result must be explained by an independent exact-rational model with boundary sets; an OOM-killed "
             "container's unfinished operators are re-run in a second container (other CPU count / allocation) and matched again.",
        note="Trusts the transcription of the four undocumented scaling laws; accepts either side within 1e-9 relative of a "
             "tick/limit boundary as the property itself allows.",
        ref="6 C05"),
    "C06": dict(
        technique="property-based testing (Hypothesis) of whole simulations with an independent recount of the statistics",
        text="Generated simulations (custom DAG schedules, generator runs, generator->CSV->trace runs, all shipped schedulers, empty runs/classes) "
             "whose SimulatorStats must equal a recount from recorded arrivals, decisions, results and snapshots; an uncontended family checks "
             "the exact tick count of a lone pipeline against the tick model.",
        note=SIM_NOTE, ref="6 C06"),
    "C07": dict(
        technique="property-based differential testing (Hypothesis) across separate interpreter processes, hash seeds and in-process histories",
        text="Each generated case is executed in three child interpreters (different PYTHONHASHSEED, after a history of unrelated simulations, "
             "twice in one process) and the canonicalised tick-by-tick logs and statistics must be identical; generator fingerprints must not "
             "depend on non-workload parameters and must depend on the seed.",
        note="Hash seeds and histories are sampled; identical pipelines (twins) are injected so that ties exist where identifier or hash "
             "order could matter.", ref="6 C07"),
    "C08": dict(
        technique="property-based testing (Hypothesis) of the full configuration x workload space with an admissibility monitor",
        text="Generated valid configurations and DAG workloads through run_simulator for naive, priority, priority-pool, overbook and the starter "
             "scheduler; no exception, numeric statistics, and every recorded round admissible independently of the executor's own assertions. "
             "The recorded finding priority-pool-single-op is recognised by its signature only.",
        note=SIM_NOTE, ref="6 C08"),
    "C09": dict(
        technique="model-based property testing (Hypothesis command tapes): container/outcome accounting vs model",
        text="Pool machine over 1-4 pools with simultaneous completions, kills and suspensions and out-of-range pool numbers; one container per accepted "
             "assignment, exactly one result in the tick it ends, success/failure shape, accounting identity every tick.",
        note=POOL_NOTE, ref="6 C09"),
    "C10": dict(
        technique="model-based property testing (Hypothesis command tapes): suspend attempts at every point of a container's life",
        text="Suspend attempts (legal, mid-operator, suspending/suspended/unknown/wrong-pool/duplicate) at tick rates where the write-out is 0->1, 1, 2, many "
             "ticks, incl. identical containers finishing suspensions in the same tick and several containers of one pipeline; acceptance, duration, "
             "held allocation, absence of results and hand-back of work compared with the model.",
        note=POOL_NOTE, ref="6 C10"),
    "C11": dict(
        technique="model-based property testing (Hypothesis command tapes) with a validity predicate over the victim set",
        text="Overcommitted pools with 2-8 concurrent containers crossing capacity; the failed results of each tick are validated (needed, descending "
             "score, minimal, sufficient, never finished or zero-usage containers) against the model's per-container demand.",
        note=POOL_NOTE, ref="6 C11"),
    "C12": dict(
        technique="property-based testing (Hypothesis) of simulations with a per-round monitor (priority order, FIFO, work conservation, preemption)",
        text="Generated priority / priority-pool simulations incl. a preemption profile (long multi-operator containers, query bursts, 1-3 tick suspensions); "
             "every recorded round judged from the pre-round snapshot, the decisions and the post-scheduler operator states.",
        note=SIM_NOTE + " Liveness wording is decided in its bounded per-round form.", ref="6 C12"),
    "C13": dict(
        technique="exhaustive arrival grid (k <= 20000 x 2 spellings x 12 tick rates) + property-based trace replay and gentrace round trips (Hypothesis), exact-rational oracle",
        text="Every grid arrival and thousands of generated traces replayed through CSVWorkloadReader + WorkloadTrace and judged in exact Fractions "
             "(exactly once, never early, first tick >= arrival, file order, nothing beyond the end); gentrace round trips against the generator "
             "run directly. The recorded finding late-on-grid is recognised by its exact signature only.",
        note="Precondition of the statement: rows in ascending arrival order. Tick loop bounded (10^4 ticks quick, 10^6 thorough).", ref="6 C13"),
    "C14": dict(
        technique="property-based round-trip and fault-injection testing (Hypothesis) of the CSV writer/reader",
        text="Generated DAG workloads written and read back (field-by-field equality, None vs 0), read-write second leg compared row-wise, hand-formatted "
             "files against the reference structure, and each listed format rule broken at a generated row must be refused.",
        note="Inputs the statement does not classify (duplicate ids, NaN, missing columns ...) are never generated.", ref="6 C14"),
    "C15": dict(
        technique="property-based testing (Hypothesis) of the workload generator: structural clauses per event + fixed-sample statistical and metamorphic clauses",
        text="Generated seeds and parameter sets; every event checked structurally; class frequencies, operator-count mean, mean gap and the "
             "cpu_io_ratio shift checked with fixed sample sizes and >= 6 sigma margins.",
        note="Prototype table transcribed from the pinned commit; statistical clauses have a false-alarm probability below 1e-8 per case.", ref="6 C15"),
    "C16": dict(
        technique="property-based testing (Hypothesis) of priority-pool simulations with a per-assignment monitor",
        text="Generated two-pool simulations with OOM and repeated doubling on both pools; pool/priority of every assignment, empty suspensions, retry shape "
             "and abandonment threshold checked on the recorded decisions and results.",
        note=SIM_NOTE, ref="6 C16"),
    "C17": dict(
        technique="property-based testing (Hypothesis) of naive-scheduler simulations with a per-round monitor",
        text="Generated naive simulations (1-4 pools, DAGs, both modes, failures): one container per pool per round with exactly the free CPU/RAM, FIFO first "
             "containers, no suspension, nothing after a failure, one ready operator in single-operator mode.",
        note=SIM_NOTE, ref="6 C17"),
    "C18": dict(
        technique="property-based testing (Hypothesis) of overbook simulations with a per-round monitor",
        text="Generated overbook simulations with overcommit: shape of every assignment, containers <= CPUs, no ready operator beside a free CPU after a "
             "triggered round, abandonment after three failed containers.",
        note=SIM_NOTE, ref="6 C18"),
    "C19": dict(
        technique="property-based testing (Hypothesis) against a loop-back HTTP server: payload oracle inside the handler + differential in-process replay",
        text="run_simulator with scheduler_algo='rest' against an in-thread HTTP server playing a port of the Go reference policy and a tape-driven "
             "policy; every request body compared with an independent serialisation of the live objects, protocol promises (disjointness, "
             "completion reported exactly once, call discipline, no resource needs revealed) checked per call, decisions compared with what "
             "the executor receives, and the whole run compared with an in-process replay of the same decisions.",
        note="The Go server itself cannot be compiled in the sandbox (no Go toolchain); a line-by-line port stands in for it.", ref="6 C19"),
    "C20": dict(
        technique="property-based testing (Hypothesis) of the CLI tools with an exact-decimal oracle; child-process run of sensitivity-sample",
        text="Generated traces through `tools snap` (boundary, floor, never up, < 1 tick, idempotent, other columns intact) and `tools jitter` "
             "(bounds, order, completeness, reproducibility, seed sensitivity); `tools sensitivity-sample` run as a child process and each w{i}.csv "
             "compared with the trace of seed start_seed + i.",
        note="Input traces are well-formed (unique contiguous pipeline ids, ascending arrivals).", ref="6 C20"),
}

PENDING_REASON = "check not built yet in this revision of the framework (planned, see DESIGN.md section 6)"


def main():
    props = [json.loads(l) for l in open(os.path.join(HERE, "properties.jsonl"))]
    checks = []
    na = []
    for p in props:
        pid = p["id"]
        c = CHECKS.get(pid)
        if not c:
            na.append({"property_id": pid, "reason": PENDING_REASON})
            continue
        checks.append({
            "property_id": pid,
            "quick_cmd": f"./check {pid} --tier quick",
            "thorough_cmd": f"./check {pid} --tier thorough",
            "evidence_file": f"/verif/evidence/{pid}.json",
            "replay_cmd_template": f"./check {pid} --replay {{path}}",
            "engine": "pbt",
            "technique": c["technique"],
            "level_claimed": {"category": "exploration", "text": c["text"], "design_ref": "DESIGN.md section " + c["ref"]},
            "level_note": c["note"],
        })
    man = {
        "version": 1,
        "setup_cmd": "./setup.sh",
        "hooks": {
            "guard": "EUDOXIA_VERIF",
            "enable": "no in-repo hooks: the checks observe the package through its public seams (subclasses and wrappers "
                      "installed by the harness at run time); EUDOXIA_VERIF=1 is exported by ./check but nothing in /repo reads it",
            "baseline_off_cmd": "cd /repo && /venv/bin/python -m pytest -ra -q -p no:cacheprovider --timeout=900",
            "source_commits": [],
            "add_only": True,
        },
        "engines": [{
            "name": "pbt", "path": "/verif/verif",
            "serves_properties": [c["property_id"] for c in checks],
            "kind_free_text": "Hypothesis strategies producing JSON case specs, executed against the working tree of /repo with "
                              "independent oracles (exact-rational tick model, pool ledger model, round monitors); sharded over 16 "
                              "processes; exhaustive enumeration for small finite domains; atheris for the CSV parsers",
        }],
        "checks": checks,
        "not_applicable": na,
        "notes": "Every check: exit 0 = held on everything explored, 1 = VIOLATION line with a JSON replay file, 2 = harness error. "
                 "VERIF_SEED selects the Hypothesis seeds (shard i uses seed*1009+i). known_findings.txt lists recorded findings "
                 "and fixed defects.",
    }
    with open(os.path.join(HERE, "MANIFEST.json"), "w") as f:
        json.dump(man, f, indent=1)
        f.write("\n")
    print("claimed", len(checks), "not_applicable", len(na))


if __name__ == "__main__":
    main()
