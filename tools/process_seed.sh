#!/bin/bash
# usage: tools/process_seed.sh <round-dir> <round-tag> <ID> [extra check ids...]
# Confirms the seeded change a sub-agent left in <round-dir>/<ID>-out (tools/verify_seed.sh) and, if it is kept,
# runs the quick check of its property (and any extra ones) against it; one MUTANT line per check is appended to
# mutants/results/<round-tag>_audit.log, found replay files go to .work/found-<round-tag>.
cd "$(dirname "${BASH_SOURCE[0]}")/.."
root="$1"; tag="$2"; id="$3"; shift 3
v=$(SEED_ROOT="$root" SEED_TAG="$tag-" tools/verify_seed.sh "$id" 1 2>&1); echo "$v" | grep SEED
echo "$v" | grep -q KEPT || exit 1
FAST=1 SAVE_FOUND="$PWD/.work/found-$tag" mutants/run_mutant.sh "seeded/$id-$tag-1/patch.diff" "$id" "$@" 2>&1 | grep MUTANT | tee -a "mutants/results/${tag}_audit.log"
