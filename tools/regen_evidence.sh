#!/bin/bash
# Runs every registered quick check once on the unchanged tree (VERIF_SEED=1) so that evidence/<ID>.json is the product of
# a full-size run of the committed framework.  Prints one line per check; exits non-zero if any check does.
cd "$(dirname "${BASH_SOURCE[0]}")/.."
rc=0
for id in C01 C02 C03 C04 C05 C06 C07 C08 C09 C10 C11 C12 C13 C14 C15 C16 C17 C18 C19 C20; do
  s=$(date +%s)
  VERIF_SEED=1 ./check $id --tier quick > .work/regen-$id.log 2>&1
  r=$?
  echo "$id exit=$r $(( $(date +%s) - s ))s $(grep -c KNOWN-FINDING .work/regen-$id.log) known-finding line(s)"
  [ $r = 0 ] || rc=1
done
exit $rc
